#!/venv/bin/python
"""Run optuna's pinned test suite against a tree and compare with /root/.vp/BASELINE.json.

usage: baseline.py [--repo DIR] [-n N] [--exact]   (N>0 uses pytest-xdist; --exact = baseline cmd)
exit 0 iff every stable_pass test passed.
"""
import argparse
import json
import os
import subprocess
import sys
import tempfile
import xml.etree.ElementTree as ET


def main() -> int:
    ap = argparse.ArgumentParser()
    ap.add_argument("--repo", default="/repo")
    ap.add_argument("-n", type=int, default=16)
    ap.add_argument("-k", default=None)
    ap.add_argument("paths", nargs="*")
    a = ap.parse_args()
    base = json.load(open("/root/.vp/BASELINE.json"))
    stable = set(base["stable_pass"])
    fd, junit = tempfile.mkstemp(suffix=".xml", prefix="vfbase")
    os.close(fd)
    cmd = [
        "/venv/bin/python", "-m", "pytest", "-q", "-p", "no:cacheprovider", "--timeout=900",
        "--continue-on-collection-errors", f"--junitxml={junit}",
    ]
    if a.n > 0:
        cmd += ["-n", str(a.n)]
    if a.k:
        cmd += ["-k", a.k]
    cmd += a.paths
    env = dict(os.environ)
    env.pop("OPTUNA_VERIF", None)
    env["PYTHONPATH"] = a.repo
    p = subprocess.run(cmd, cwd=a.repo, env=env, stdout=subprocess.PIPE, stderr=subprocess.STDOUT, text=True)
    tail = p.stdout.strip().splitlines()[-3:]
    passed = set()
    failed = set()
    for tc in ET.parse(junit).getroot().iter("testcase"):
        tid = f"{tc.get('classname')}::{tc.get('name')}"
        bad = any(ch.tag in ("failure", "error") for ch in tc)
        skipped = any(ch.tag == "skipped" for ch in tc)
        if bad:
            failed.add(tid)
        elif not skipped:
            passed.add(tid)
    os.unlink(junit)
    if a.paths or a.k:
        ran = passed | failed
        missing = sorted((stable & ran) - passed)
    else:
        missing = sorted(stable - passed)
    print("\n".join(tail))
    if missing and a.n > 0:
        # xdist makes the grpc tests collide on ports: re-run what did not pass, sequentially
        ids = []
        for m in missing:
            cls, name = m.split("::", 1)
            parts = cls.split(".")
            for i in range(len(parts), 0, -1):
                f = os.path.join(a.repo, *parts[:i]) + ".py"
                if os.path.exists(f):
                    ids.append("/".join(parts[:i]) + ".py::" + "::".join(parts[i:] + [name]))
                    break
        if ids and len(ids) < 400:
            fd, junit2 = tempfile.mkstemp(suffix=".xml", prefix="vfbase")
            os.close(fd)
            cmd2 = [c for c in cmd if not c.startswith("--junitxml")][: cmd.index("--continue-on-collection-errors") ]
            cmd2 = ["/venv/bin/python", "-m", "pytest", "-q", "-p", "no:cacheprovider", "--timeout=900", f"--junitxml={junit2}"] + ids
            subprocess.run(cmd2, cwd=a.repo, env=env, stdout=subprocess.PIPE, stderr=subprocess.STDOUT, text=True)
            for tc in ET.parse(junit2).getroot().iter("testcase"):
                tid = f"{tc.get('classname')}::{tc.get('name')}"
                if not any(ch.tag in ("failure", "error", "skipped") for ch in tc):
                    passed.add(tid)
            os.unlink(junit2)
            print(f"re-ran {len(ids)} sequentially")
            missing = sorted(set(missing) - passed)
    print(f"stable={len(stable)} passed={len(passed)} failed={len(failed)} stable_not_passed={len(missing)}")
    for m in missing[:40]:
        print("  NOT PASSED:", m)
    return 0 if not missing else 1


if __name__ == "__main__":
    sys.exit(main())
