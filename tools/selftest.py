#!/venv/bin/python
"""Detection self-test: applies hand-written property-breaking mutations to a scratch copy of
/repo/optuna (never to /repo) and runs the named checks against it with VF_REPO.

usage: selftest.py [-t quick|thorough] [name ...]     (no name = all)
A mutation is (file, old text, new text, checks expected to report a VIOLATION).
"""
import argparse
import os
import shutil
import subprocess
import sys

VERIF = os.path.dirname(os.path.dirname(os.path.abspath(__file__)))

M = {
    # ---- C03 -------------------------------------------------------------------------------
    "mem-create-trial-nolock": ("optuna/storages/_in_memory.py",
        "    def create_new_trial(self, study_id: int, template_trial: FrozenTrial | None = None) -> int:\n        with self._lock:",
        "    def create_new_trial(self, study_id: int, template_trial: FrozenTrial | None = None) -> int:\n        if True:",
        ["C03"]),
    "journal-unlock-between-write-and-sync": ("optuna/storages/journal/_storage.py",
        "        with self._thread_lock:\n            self._write_log(JournalOperation.CREATE_TRIAL, log)\n            self._sync_with_backend()",
        "        with self._thread_lock:\n            self._write_log(JournalOperation.CREATE_TRIAL, log)\n        with self._thread_lock:\n            self._sync_with_backend()",
        ["C03"]),
    # ---- C07 -------------------------------------------------------------------------------
    "file-drop-remaining-size-guard": ("optuna/storages/journal/_file.py",
        "                if remaining_log_size < 0:\n                    break\n", "", ["C07"]),
    "file-keep-partial-offset": ("optuna/storages/journal/_file.py",
        "                    last_decode_error = ValueError(\"Invalid log format.\")\n                    del self._log_number_offset[log_number + 1]\n",
        "                    last_decode_error = ValueError(\"Invalid log format.\")\n", ["C07"]),
    "file-write-outside-lock": ("optuna/storages/journal/_file.py",
        "        with get_lock_file(self._lock):\n            what_to_write = (",
        "        if True:\n            what_to_write = (", ["C07"]),
    "file-unfix-skipped-partial-line": ("optuna/storages/journal/_file.py",
        "                if log_number + 1 not in self._log_number_offset:",
        "                if log_number < log_number_from and not line.endswith(b\"\\n\"):\n                    self._log_number_offset[log_number + 1] = self._log_number_offset[log_number] + byte_len\n                    continue\n                if log_number + 1 not in self._log_number_offset:",
        ["C07"]),
    # ---- C06 -------------------------------------------------------------------------------
    "journal-advance-read-after-apply": ("optuna/storages/journal/_storage.py",
        "        for log in logs:\n            self.log_number_read += 1\n            op = log[\"op_code\"]",
        "        for log in logs:\n            self.log_number_read += 0\n            op = log[\"op_code\"]", ["C06"], [("            else:\n                assert False, \"Should not reach.\"\n\n    def get_study(", "            else:\n                assert False, \"Should not reach.\"\n            self.log_number_read += 1\n\n    def get_study(")]),
    "journal-dup-study-raises-everywhere": ("optuna/storages/journal/_storage.py",
        "        if study_name in [s.study_name for s in self._studies.values()]:\n            if self._is_issued_by_this_worker(log):",
        "        if study_name in [s.study_name for s in self._studies.values()]:\n            if True:", ["C06"]),
    "journal-apply-rejected-param-at-non-issuers": ("optuna/storages/journal/_storage.py",
        "                    if self._is_issued_by_this_worker(log):\n                        raise\n                    return\n",
        "                    if self._is_issued_by_this_worker(log):\n                        raise\n", ["C06"]),
    # ---- C17 -------------------------------------------------------------------------------
    "isect-cursor-skips-unfinished": ("optuna/search_space/intersection.py",
        "        if not trial.state.is_finished():\n            next_cached_trial_number = trial.number\n            continue",
        "        if not trial.state.is_finished():\n            continue", ["C17"]),
    "isect-cursor-break-ge": ("optuna/search_space/intersection.py",
        "        if cached_trial_number > trial.number:", "        if cached_trial_number >= trial.number:", ["C17"]),
    "group-split-drops-rest": ("optuna/search_space/group_decomposed.py",
        "            next_search_spaces.append({name: search_space[name] for name in keys - dist_keys})\n", "", ["C17"]),
    # ---- C12 -------------------------------------------------------------------------------
    "mem-best-cache-le": ("optuna/storages/_in_memory.py",
        "            if best_value > new_value:", "            if best_value >= new_value and False or best_value < new_value and trial.number == 0:", ["C12"]),
    "rdb-best-inf-rank-swapped": ("optuna/storages/_rdb/models.py",
        "                asc(\n                    case(\n                        {\"INF_NEG\": -1, \"FINITE\": 0, \"INF_POS\": 1},",
        "                asc(\n                    case(\n                        {\"INF_NEG\": 1, \"FINITE\": 0, \"INF_POS\": -1},", ["C12"]),
    "best-trial-feasible-fallback-ignores-direction": ("optuna/study/study.py",
        "            if self.direction == StudyDirection.MAXIMIZE:\n                best_trial = max(feasible_trials",
        "            if False:\n                best_trial = max(feasible_trials", ["C12"]),
    "pareto-2d-strictness": ("optuna/study/_multi_objective.py",
        "def _is_pareto_front_2d(", "def _is_pareto_front_2d_orig(", ["C12"],
        [("def _is_pareto_front_2d_orig(", "def _is_pareto_front_2d(unique_lexsorted_loss_values):\n    r = _is_pareto_front_2d_orig(unique_lexsorted_loss_values)\n    r[-1:] = True\n    return r\n\n\ndef _is_pareto_front_2d_orig(")]),
    # ---- C20 -------------------------------------------------------------------------------
    "trial-unfix-private-copy": ("optuna/trial/_trial.py",
        "        self._cached_frozen_trial = copy.deepcopy(self.storage.get_trial(self._trial_id))",
        "        self._cached_frozen_trial = self.storage.get_trial(self._trial_id)", ["C20"]),
    "mem-set-param-in-place": ("optuna/storages/_in_memory.py",
        "            trial = copy.copy(trial)\n            trial.params = copy.copy(trial.params)\n            trial.params[param_name]",
        "            trial.params[param_name]", ["C20"]),
    "mem-get-all-trials-returns-internal-list": ("optuna/storages/_in_memory.py",
        "                # This copy is required for the replacing trick in `set_trial_xxx`.\n                trials = copy.copy(trials)",
        "                pass", ["C20"]),
    "study-user-attrs-no-deepcopy": ("optuna/study/study.py",
        "        return copy.deepcopy(self._storage.get_study_user_attrs(self._study_id))",
        "        return self._storage.get_study_user_attrs(self._study_id)", ["C20"]),
    "journal-user-attr-in-place": ("optuna/storages/journal/_storage.py",
        "            trial = copy.copy(self._trials[trial_id])\n            trial.user_attrs = {**copy.copy(trial.user_attrs), **log[\"user_attr\"]}\n            self._trials[trial_id] = trial",
        "            self._trials[trial_id].user_attrs.update(log[\"user_attr\"])", ["C20"]),
    # ---- C02 -------------------------------------------------------------------------------
    "tell-state-write-outside-finally": ("optuna/study/_tell.py",
        "    try:\n        # Sampler defined trial post-processing.\n        study = pruners._filter_study(study, frozen_trial)\n        study.sampler.after_trial(study, frozen_trial, state, values)\n    finally:\n        study._storage.set_trial_state_values(frozen_trial._trial_id, state, values)",
        "    study = pruners._filter_study(study, frozen_trial)\n    study.sampler.after_trial(study, frozen_trial, state, values)\n    study._storage.set_trial_state_values(frozen_trial._trial_id, state, values)", ["C02"]),
    "tell-drop-length-check": ("optuna/study/_tell.py",
        "    if len(study.directions) != len(values):\n        return (", "    if False:\n        return (", ["C02"]),
    "optimize-callbacks-before-tell-result": ("optuna/study/_optimize.py",
        "    if (\n        frozen_trial.state == TrialState.FAIL\n        and func_err is not None\n        and not isinstance(func_err, catch)\n    ):\n        raise func_err",
        "    if (\n        frozen_trial.state == TrialState.FAIL\n        and func_err is not None\n        and not isinstance(func_err, (ValueError,) + tuple(catch))\n    ):\n        raise func_err", ["C02"]),
    "tell-unfix-float-conversion": ("optuna/study/_tell.py",
        "        except Exception:\n            # E.g., ValueError, TypeError, OverflowError or anything raised by `__float__`.",
        "        except (ValueError, TypeError):", ["C02"]),
    "optimize-unfix-njobs-exception-swallow": ("optuna/study/_optimize.py",
        "            for f in futures:\n                f.result()\n", "", ["C02"]),
    "ask-unfix-fail-on-sampler-error": ("optuna/study/study.py",
        "            self._storage.set_trial_state_values(trial_id, TrialState.FAIL)\n            raise", "            raise", ["C02"]),
    # ---- C04 -------------------------------------------------------------------------------
    "mem-cas-drop-waiting-test": ("optuna/storages/_in_memory.py",
        "            if state == TrialState.RUNNING and trial.state != TrialState.WAITING:\n                return False\n", "", ["C04"]),
    "mem-waiting-cursor-plus-one": ("optuna/storages/_in_memory.py",
        "                            self._prev_waiting_trial_number[study_id] = trial.number\n",
        "                            self._prev_waiting_trial_number[study_id] = trial.number + 1\n", ["C04"]),
    "pop-waiting-ignores-false": ("optuna/study/study.py",
        "            if not self._storage.set_trial_state_values(trial._trial_id, state=TrialState.RUNNING):\n                continue\n",
        "            self._storage.set_trial_state_values(trial._trial_id, state=TrialState.RUNNING)\n", ["C04"]),
    "journal-ownership-before-state-test": ("optuna/storages/journal/_storage.py",
        "        state = TrialState(log[\"state\"])\n        if state == self._trials[trial_id].state and state == TrialState.RUNNING:",
        "        state = TrialState(log[\"state\"])\n        if state == TrialState.RUNNING and self._is_issued_by_this_worker(log):\n            self._worker_id_to_owned_trial_id[self.worker_id] = trial_id\n            return None if state == self._trials[trial_id].state else self._trials.__setitem__(trial_id, (lambda t: (setattr(t, 'state', state), t)[1])(copy.copy(self._trials[trial_id])))\n        if state == self._trials[trial_id].state and state == TrialState.RUNNING:", ["C04"]),
    # ---- C08 -------------------------------------------------------------------------------
    "cached-unfix-watermark-on-create": ("optuna/storages/_cached_storage.py",
        "            if not frozen_trial.state.is_finished():\n                study.unfinished_trial_ids.add(trial_id)",
        "            if frozen_trial.state.is_finished():\n                study.last_finished_trial_id = max(study.last_finished_trial_id, trial_id)\n            else:\n                study.unfinished_trial_ids.add(trial_id)", ["C08"]),
    "cached-watermark-over-unfinished": ("optuna/storages/_cached_storage.py",
        "                if not trial.state.is_finished():\n                    study.unfinished_trial_ids.add(trial._trial_id)\n                    continue\n",
        "                if not trial.state.is_finished():\n                    study.unfinished_trial_ids.add(trial._trial_id)\n                    study.last_finished_trial_id = max(study.last_finished_trial_id, trial._trial_id)\n                    continue\n", []),  # equivalent: the trial stays in the unfinished set and is re-fetched; nothing observable changes
    "cached-get-trial-serves-unfinished-from-cache": ("optuna/storages/_cached_storage.py",
        "        return study.trials[number] if trial_id not in study.unfinished_trial_ids else None",
        "        return study.trials[number]", ["C08"]),
    "grpc-cache-sort-by-id": ("optuna/storages/_grpc/client.py",
        "            trials = list(sorted(trials.values(), key=lambda t: t.number))\n            return trials",
        "            trials = list(sorted(trials.values(), key=lambda t: -t._trial_id))\n            return trials", ["C08"]),
    "grpc-cache-keeps-finished-in-unfinished-set": ("optuna/storages/_grpc/client.py",
        "        study.unfinished_trial_ids.discard(trial._trial_id)", "        pass", []),  # equivalent: finished trials are merely re-fetched (cost only)
    # ---- C09 -------------------------------------------------------------------------------
    "hyperband-bracket-from-trial-id": ("optuna/pruners/_hyperband.py",
        "trial.number", "trial._trial_id", ["C09"]),
    "copy-study-drops-system-attrs": ("optuna/study/study.py",
        "    for key, value in from_study._storage.get_study_system_attrs(from_study._study_id).items():\n        to_study._storage.set_study_system_attr(to_study._study_id, key, value)\n", "", ["C09"]),
    "tpe-reads-trials-unsorted": ("optuna/storages/_cached_storage.py",
        "            trials = list(sorted(trials.values(), key=lambda t: t.number))", "            trials = list(sorted(trials.values(), key=lambda t: (t.state.value, t.number)))", ["C09"]),
    # ---- C10 / C18 --------------------------------------------------------------------------
    "truncnorm-unfix-bracket": ("optuna/samplers/_tpe/_truncnorm.py",
        "    return _bisect(_log_ndtr_single, lower, +100, y)", "    return _bisect(_log_ndtr_single, -100, +100, y)", ["C10", "C18"]),
    # ---- C05 ---
    "rdb-commit-trial-row-before-template-fields": ("optuna/storages/_rdb/storage.py",
        "        session.flush()\n\n        if template_trial is not None:",
        "        session.flush()\n        session.commit()\n\n        if template_trial is not None:", ["C05"]),
    "file-unfix-torn-tail": ("optuna/storages/journal/_file.py",
        "            self._drop_unterminated_tail()\n", "", ["C05"]),
    "file-no-partial-line-tolerance": ("optuna/storages/journal/_file.py",
        "                if not line.endswith(b\"\\n\"):\n                    last_decode_error = ValueError(\"Invalid log format.\")\n                    del self._log_number_offset[log_number + 1]\n                    continue\n",
        "                if not line.endswith(b\"\\n\"):\n                    raise ValueError(\"Invalid log format.\")\n", ["C05", "C07"]),
    # ---- C01 -------------------------------------------------------------------------------
    "rdb-count-past-trials-no-study-filter": ("optuna/storages/_rdb/models.py",
        "            TrialModel.study_id == self.study_id, TrialModel.trial_id < self.trial_id",
        "            TrialModel.trial_id < self.trial_id", ["C01"]),
    "mem-setter-no-updatable-check": ("optuna/storages/_in_memory.py",
        "            trial = self._get_trial(trial_id)\n            self.check_trial_is_updatable(trial_id, trial.state)\n\n            trial = copy.copy(trial)\n            trial.intermediate_values",
        "            trial = self._get_trial(trial_id)\n\n            trial = copy.copy(trial)\n            trial.intermediate_values", ["C01"]),
    "proto-drop-nan-intermediate": ("optuna/storages/_grpc/servicer.py",
        "        intermediate_values={step: value for step, value in trial.intermediate_values.items()},\n    )\n\n\ndef _from_proto_trial",
        "        intermediate_values={step: value for step, value in trial.intermediate_values.items() if value == value},\n    )\n\n\ndef _from_proto_trial", ["C01"]),
    # ---- C08 -------------------------------------------------------------------------------
    "cached-own-delete-keeps-number-map": ("optuna/storages/_cached_storage.py",
        "                    if (study_id, trial_number) in self._study_id_and_number_to_trial_id:\n                        del self._study_id_and_number_to_trial_id[(study_id, trial_number)]\n",
        "", ["C08"]),
    "mem-unfix-waiting-cursor": ("optuna/storages/_in_memory.py",
        "                if state == TrialState.WAITING:\n", "                if False:\n", ["C01"]),
}


def run_one(name: str, tier: str) -> bool:
    f, old, new, checks = M[name][:4]
    extra = M[name][4] if len(M[name]) > 4 else []
    root = f"/dev/shm/vfmut_{os.getpid()}_{name}"
    shutil.rmtree(root, ignore_errors=True)
    os.makedirs(root)
    shutil.copytree("/repo/optuna", os.path.join(root, "optuna"))
    p = os.path.join(root, f)
    s = open(p).read()
    if old not in s:
        print(f"[{name}] STALE: pattern not found in {f}")
        shutil.rmtree(root)
        return False
    s = s.replace(old, new, 1)
    for o2, n2 in extra:
        assert o2 in s, "stale extra pattern"
        s = s.replace(o2, n2, 1)
    open(p, "w").write(s)
    ok = True
    for c in checks:
        env = dict(os.environ, VF_REPO=root)
        r = subprocess.run([os.path.join(VERIF, "check"), c, "--tier", tier], env=env, cwd=VERIF,
                           stdout=subprocess.PIPE, stderr=subprocess.STDOUT, text=True)
        viol = [l for l in r.stdout.splitlines() if l.startswith("VIOLATION")]
        caught = r.returncode == 1 and viol
        print(f"[{name}] {c}: {'CAUGHT' if caught else 'MISSED (rc=%d)' % r.returncode} {viol[0][:200] if viol else ''}")
        if r.returncode not in (0, 1):
            print(r.stdout[-1500:])
        ok = ok and bool(caught)
    shutil.rmtree(root)
    # evidence files were rewritten by runs against the mutant: restore from git
    subprocess.run(["git", "checkout", "--", "evidence"], cwd=VERIF, stdout=subprocess.DEVNULL, stderr=subprocess.DEVNULL)
    return ok


def main() -> int:
    ap = argparse.ArgumentParser()
    ap.add_argument("-t", default="quick")
    ap.add_argument("names", nargs="*")
    a = ap.parse_args()
    names = a.names or list(M)
    bad = [n for n in names if not run_one(n, a.t)]
    print("missed:", bad)
    return 1 if bad else 0


if __name__ == "__main__":
    sys.exit(main())
