#!/venv/bin/python
"""Record the outcome of evaluating a seeded change in its meta.json.
usage: seed_record.py <seed> <caught_by csv> <first_run caught|missed> [strengthening text]"""
import json
import os
import sys

VERIF = os.path.dirname(os.path.dirname(os.path.abspath(__file__)))
seed, caught_by, first = sys.argv[1:4]
strength = sys.argv[4] if len(sys.argv) > 4 else None
p = os.path.join(VERIF, "seeded", seed, "meta.json")
d = json.load(open(p))
d["verification"] = {
    "caught_by": [c.strip() + " (quick)" for c in caught_by.split(",") if c.strip()],
    "first_run": first,
    "strengthening": strength,
    "demo": "fails with the change (rc 1), passes on the unmodified tree (rc 0): tools/seed_eval.py",
    "tests": d.get("verification", {}).get("tests", "author's runs on the touched areas: identical with and without the change"),
}
json.dump(d, open(p, "w"), indent=1)
print("recorded", seed)
