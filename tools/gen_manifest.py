#!/venv/bin/python
"""Regenerates /verif/MANIFEST.json from the table below (one entry per claimed property)."""
import json
import os
import subprocess

VERIF = os.path.dirname(os.path.dirname(os.path.abspath(__file__)))

CHECKS = {
    "C01": dict(
        engine="seqx",
        category="model_checking",
        technique="explicit-state search over operation histories of the real backends, reference-model oracle (bounded exhaustive, state de-duplication)",
        text="Every history of BaseStorage calls up to the depth bound, from the empty storage and from 11 seeded non-initial states, is executed on every backend configuration (in-memory, SQLite RDB, cached RDB, journal over list/file(2 locks)/fakeredis, in-process gRPC proxy over mem/journal/RDB/cached) and compared, call by call and getter by getter, with a dict-based reference model of the documented contract. No sampling: the enumeration is complete within the stated bounds.",
        note="Trusted: the reference model (vf/refmodel.py), SQLite standing for RDB, fakeredis standing for Redis, the in-process gRPC stub standing for the HTTP/2 transport. Depth bounds are small (see evidence).",
        design="3/C01",
    ),
    "C02": dict(
        engine="seqx",
        category="model_checking",
        technique="bounded-exhaustive enumeration of objective programs (behaviour tuples), catch/callback/hostile-hook variants and the full tell() argument product on real studies, oracle = the clauses of the statement; optimize(n_jobs=2) by stateless model checking under the cooperative thread scheduler",
        text="Every tuple of 2 (thorough 3) behaviours from a 54-entry menu (return values of every type and shape incl. strings, containers, numpy, Decimal, huge ints, objects with hostile __float__; exceptions incl. KeyboardInterrupt and TrialPruned before/after reports) runs through Study.optimize on in-memory storage (singles on journal file, gRPC proxy, cached RDB and for 2 objectives), crossed with catch tuples, recording/raising/stopping callbacks and a sampler/pruner that raises in each of 6 hooks; plus tell(values, state, skip_if_finished) on trials in every state. Checked: nothing left RUNNING, COMPLETE iff convertible/NaN-free/one per objective with those floats, FAIL without values, propagation after failing, finished trials untouched by tell, callbacks once per trial, exactly n_trials.",
        note="n_jobs=2 is explored under the thread scheduler for a curated behaviour menu (incl. stop() + uncaught exception), everything else is sequential optimize. float-convertibility is computed with float() in the same interpreter. str/bytes returns accept FAIL or COMPLETE-with-that-float.",
        design="3/C02",
    ),
    "C03": dict(
        engine="thx",
        category="model_checking",
        technique="stateless model checking of the real storages: threads under a cooperative scheduler (sys.monitoring line events + cooperative locks), processes at SQL-statement level over real SQLite, at syscall level over a simulated file system and at Redis-command level over fakeredis; iterative preemption bounding, state caching for the file system part; brute-force linearizability oracle",
        text="For every unordered pair of a 19-operation collision-forcing alphabet (incl. the deep-copying list read, with a scheduling point at every trial copy) (plus curated 2x2 and 3x1 programs) all interleavings up to the preemption bound are enumerated for (A) 2-3 real threads sharing one storage object (in-memory, journal, cached RDB, gRPC client; also two threads of one caching client next to a foreign worker with its own connection) with a scheduling point at every source line of the storage-layer file and at every lock operation, (B) processes/threads with their own connections on one SQLite file with a scheduling point at every SQL statement and commit (single-writer lock modelled, real SQLite executes), (C) processes with their own JournalStorage over one simulated journal file with a scheduling point at every syscall (both lock classes), (D) processes with their own JournalStorage over one Redis journal (fakeredis; Lua and use_cluster paths) with a scheduling point at every Redis command. Each complete history must equal, in return values and final state, some real-time-consistent sequential execution on the same backend.",
        note="Line-granularity preemption for threads; locks replaced by cooperative ones discovered by type; bounds: threads 2 (mem) / 1 quick, 3 (mem) / 2 thorough; SQL 1 / 2; SimFS 2 / 3 with state caching; Redis journal (Lua and use_cluster paths) 2 procs, bound 2. SQLite atomicity failures are known findings (see known_findings.json).",
        design="3/C03",
    ),
    "C04": dict(
        engine="thx",
        category="model_checking",
        technique="stateless model checking of concurrent study.ask()/enqueue workers (real threads under the cooperative scheduler, preemption-bounded) after every bounded sequential prefix history",
        text="Every prefix history up to depth 2 (thorough 3) over {enqueue, ask, tell, add finished, add WAITING} leaving 1-2 queued trials is followed by 2-3 workers calling study.ask() + suggest (one may enqueue concurrently); all schedules up to the preemption bound with scheduling points at every source line of optuna/study/study.py and the storage-layer file, for workers sharing one Study or being separate journal processes (independently opened, or pickled copies with one shared main-thread ident as forked children have) (in-memory, journal, cached RDB, gRPC client) and for separate Study/JournalStorage objects over one shared journal. Checked: no trial id returned by two asks, enqueued value returned verbatim by suggest and stored, number/user attrs kept, no queued trial left WAITING or bypassed by a fresh trial when enough asks followed the last enqueue.",
        note="Preemption bound 1 (quick); thorough: 1 for every depth-3 prefix, 2 for the prefixes of depth 1 on the fast configurations with the ask|ask, enq ask|ask and open ask|ask programs; SQLite statement-level double claim is not in this part; ask() raising is recorded as an observation only.",
        design="3/C04",
    ),
    "C05": dict(
        engine="procx",
        category="fault_enumeration",
        technique="exhaustive crash-point enumeration (every syscall boundary and every byte offset of every record write) of the real journal code over a simulated file system, survivor interleavings by state-cached stateless search",
        text="A victim JournalStorage(JournalFileBackend) runs each call of a 7-call menu (and short multi-call histories) over SimFS and is killed at every syscall boundary and at every byte offset inside every record write; then every survivor continuation (1 survivor sequential, 2 survivors all interleavings up to the preemption bound with state caching) runs, and a fresh opener replays the file. Observed states must equal the reference after acked or acked+interrupted, no survivor call may raise, survivors must terminate. Both lock classes.",
        note="Crash = process death (page cache survives); one crash per run; SQLite part: every storage call of a 10-call menu with death before every SQL statement and commit (crashes inside SQLite's own commit are trusted); SimFS is validated against tmpfs in C07.",
        design="3/C05",
    ),
    "C07": dict(
        engine="procx",
        category="model_checking",
        technique="stateless model checking with state caching of 2-3 real JournalFileBackend objects over a simulated POSIX file system (every syscall a scheduling point, writes delivered in enumerated chunks)",
        text="All interleavings of append_logs/read_logs calls from 2-3 backend objects with their own lock objects (2 procs x 1 call: unbounded; 2x2 and 3x1: preemption-bounded), for both lock classes, reader buffer sizes 8192 and 16, warm and cold offset caches, a journal that lay idle for longer than the lock's grace period before the run, and every enumerated cut offset of the designated write; oracle with ghost state: file = merge of whole batches, reads are contiguous slices covering finished appends, single lock holder, cached offsets agree with a fresh reader.",
        note="Environment model = SimFS (validated against a real tmpfs directory on sequential traces each run); sleeping pollers are blocked until a path they looked at changes; no crash here.",
        design="3/C07",
    ),
    "C06": dict(
        engine="seqx",
        category="model_checking",
        technique="bounded-exhaustive enumeration of multi-worker call sequences on the real JournalStorage, with all batch splits and all snapshot positions of every resulting log",
        text="Every sequence of 3 (thorough 4) calls by 2 workers over a 16-operation alphabet that includes the rejected calls and trial creation in a second study, and every sequence with one foreign append landing between a call's append and its read, is executed on real JournalStorage objects sharing one list-backed backend. Worker 1 is also run as a pickled copy of worker 0. After every call all workers must equal a fresh replay; every one of the 2^(n-1) batch splits and every (snapshot position, worker) restore + tail must give the same state; a rejected call raises only at its issuer and changes nothing; log_number_read equals the records consumed.",
        note="Backend is a Python list of JSON strings with cut points (real read path, real apply_logs); file/redis specifics are covered by C07/C01.",
        design="3/C06",
    ),
    "C08": dict(
        engine="seqx",
        category="model_checking",
        technique="explicit-state search over multi-client operation histories on one database, oracle = raw storage at that moment, observed through a clone of the cached client so that observation does not perturb the cache",
        text="Every history up to depth 3 (thorough 4) of operations by three clients on one SQLite database - A (the cached client under test: _CachedStorage(RDBStorage) or GrpcStorageProxy over a cached/in-memory server), B (second cached client), R (raw storage, third writer and oracle) - over 2 studies sharing the id space: create RUNNING/WAITING/finished trials, finish and write attributes out of creation order, claim, reads by A and B (they move watermarks), foreign delete+recreate. After every step a clone of A must answer get_all_trials (state filters), get_trial for every id, number lookup, study name and directions exactly like R, ordered by number. States de-duplicated on (database, A cache, B cache).",
        note="SQLite stands for RDB; in-process gRPC stub; thread interleavings inside one cached client are explored by C03's cached / grpc(mem) configurations.",
        design="3/C08",
    ),
    "C09": dict(
        engine="seqx",
        category="model_checking",
        technique="differential enumeration of the full finite product sampler x pruner x program x seed x storage x split, oracle = the single-call in-memory run",
        text="For every compatible combination of 8 samplers (GP in thorough), 7 pruners (incl. WilcoxonPruner, the one optimisation-time reader of best_trial), 13 deterministic define-by-run programs (conditional spaces, reports with pruning, sparse steps, a failing trial, dynamic ranges, 2 objectives, finite spaces, exactly tied best values, a NaN grid smaller than the run), 2 seeds: the 10-trial sequence of (params, intermediate values, state, values) must be identical when repeated, when split into 4+6, 1+9 or 3+3+4 optimize calls, and on every storage (journal file, gRPC proxy over in-memory and cached RDB, cached RDB, each also pre-loaded with another study so that trial ids are offset); copy_study over all ordered pairs of 5 backends must reproduce every trial field and study attribute.",
        note="Sequential optimize, deterministic objectives; SQLite stands for RDB; in-process gRPC stub; CMA-ES not installed.",
        design="3/C09",
    ),
    "C10": dict(
        engine="seqx-lattice",
        category="exploration",
        technique="bounded-exhaustive enumeration of a distribution lattice x samplers (independent and relative mode) x prior histories x storages, membership/stability/stored-value oracle",
        text="The full product of a lattice of Float/Int/Categorical distributions built from the code's branch points (tiny/huge/negative ranges, steps that do and do not divide the range, log ranges near 1, single-point domains), 10 sampler configurations (Random, TPE uni/multivariate, QMC, NSGA-II incl. variants that reach relative mode, PartialFixed, Grid/BruteForce on finite domains; GP in thorough), 5 prior histories (empty, same range, different range for the same name, enqueued in-range and out-of-range value) and 4 storages: every suggested value is inside the domain (log floats: max(4, 1+ceil|ln bound|) ulp), on the step grid, an int for ints, one of the choices for categoricals; a second suggest returns the same value; enqueued values win; the value read back from the study equals the value the objective received.",
        note="Nothing is claimed off the lattice. ==-equal categorical choices of different types ((True, 1)) are compared with == as the statement says.",
        design="3/C10",
    ),
    "C11": dict(
        engine="seqx-lattice",
        category="exploration",
        technique="bounded-exhaustive enumeration of a lattice of distributions with 'ordinary magnitudes' (<=4-digit mantissas, exponents in [-6,6]) x contained values x all 8 transform flag combinations, exact round-trip oracles",
        text="The full product of a lattice of Float/Int/Categorical (and deprecated) distributions, their contained grid values and the corner/tie/ulp-neighbour points of the transformed box is checked for: JSON round trip equality and idempotence, internal/external representation round trip, untransform(transform(v)) == v, box points mapping into the domain, compatibility/containment answers unchanged by a round trip. Nothing is claimed off the lattice.",
        note="Tolerances (log floats: max(4, 2+ceil|ln v|) ulp; plain floats exact except the documented 1-ulp clip at high) are stated in vf/c11.py. The box clause is not evaluated for log-scaled distributions with transform_log=False (documented precondition).",
        design="3/C11",
    ),
    "C12": dict(
        engine="seqx",
        category="model_checking",
        technique="bounded-exhaustive enumeration of trial histories (kinds x orders x finishing permutations) on every backend, brute-force optimum oracle",
        text="All ordered tuples of n trial kinds (COMPLETE x {-inf,0,1,inf} x constraint, PRUNED with the best possible value, FAIL, RUNNING), both directions, created as templates and as RUNNING trials finished in every permutation, on in-memory, journal file, gRPC proxy, raw SQLite RDB, cached RDB and proxy-over-cached; multi-objective: all value vectors over {-inf,0,1,inf}^d and all direction vectors. best_trial/best_value/best_trials/storage.get_best_trial are compared with a brute-force scan of study.trials.",
        note="n=3 on fast backends, 2 on SQLite-backed ones (quick); ties accept any arg-best member; mixed constrained/unconstrained histories are out (statement leaves them open).",
        design="3/C12",
    ),
    "C13": dict(
        engine="seqx",
        category="model_checking",
        technique="differential enumeration of mirrored study pairs (maximise f vs minimise -f, every flipped subset of objectives) over the full product sampler x pruner x program x seed with exactly representable (dyadic, pairwise distinct) values",
        text="For 9 samplers (10 with GP in thorough) x 9 pruner configurations (Threshold mirrored; Patient with and without a wrapped pruner) x 13 programs whose objective and intermediate values are pairwise distinct dyadic rationals (one program also reports NaN at one step per trial) x seeds x every base direction vector x every non-empty flipped subset: both runs must have identical params, states, number of reported steps (= pruning step), sign-flipped values and the same best trial(s); an empty-flip control pair must be identical (else internal error); each pruner must actually prune in some pairs (vacuity guard).",
        note="In-memory storage; values are dyadic so negation/means/percentiles are exact; ties are rejected and counted (0 on this tree).",
        design="3/C13",
    ),
    "C14": dict(
        engine="seqx",
        category="model_checking",
        technique="bounded-exhaustive enumeration of tree-shaped define-by-run programs and grids x seeds x failure/prune patterns x split points of the run, oracle = each reachable leaf exactly once and self-termination",
        text="All tree-shaped define-by-run programs up to depth 2 (thorough 3) and 9 (12) leaves over 8 parameter domains (incl. a decimal-grid float whose upper bound is not a binary fraction) (conditional branches, branches of different depth, re-used names with different ranges), all grids up to 3 parameters x 3 values incl. None/bool/nan, crossed with seeds {0,1,2}, failure patterns (i-th evaluation fails / is pruned, deterministic raise at an inner node, KeyboardInterrupt), every split of the run into 1-3 optimize calls, avoid_premature_stop, stale RUNNING trials and pre-existing/enqueued trials: the multiset of evaluated leaves equals the set of reachable leaves, each once, and the last optimize() stops by itself.",
        note="Sequential optimize on in-memory storage (journal file for a subset). A KeyboardInterrupt between two suggests of one evaluation is outside (documented BruteForce limitation).",
        design="3/C14",
    ),
    "C15": dict(
        engine="seqx-lattice",
        category="exploration",
        technique="bounded-exhaustive enumeration of integer point-set lattices against exact (integer cell-count / Pareto-peeling / exhaustive-subset) oracles",
        text="All multisets of points from small integer lattices in 1-5 dimensions (duplicates, ties, dominated points, points on the reference boundary, +-inf alphabet) are fed to compute_hypervolume, _fast_non_domination_rank (all penalty vectors, all n_below) and _solve_hssp (all subset sizes on all mutually non-dominated multisets) and compared with exact oracles. Nothing is claimed off the lattice.",
        note="Value-domain property: the family degenerates to exhaustive enumeration of a finite argument lattice; indeterminate 0*inf volumes are accepted either way.",
        design="3/C15",
    ),
    "C16": dict(
        engine="seqx",
        category="model_checking",
        technique="bounded-exhaustive enumeration of pruner settings x trial histories x report sequences on real studies, safety predicates derived from the statement and the docstrings",
        text="For every pruner (median, percentile, successive halving, Hyperband, patient, threshold, nop) a parameter grid x histories of up to 2 (thorough 3) other trials in states COMPLETE/PRUNED/RUNNING with intermediate values on step subsets of {0..3} (gaps, NaN) x every report sequence of the current trial over {-1,0,1,2,3,nan}, both directions: should_prune() is False during warm-up, before the start-up trials, within the patience window and for a trial that strictly dominates everything reported so far; threshold prunes iff the checked value is NaN or out of bounds on a checking step; nop never prunes; the Hyperband bracket is a function of (study name, trial number) only.",
        note="In-memory storage; safety-only oracle (never demands that a pruner prunes, except threshold's iff).",
        design="3/C16",
    ),
    "C17": dict(
        engine="seqx",
        category="model_checking",
        technique="explicit-state breadth-first search over the real ask/suggest/tell/calc transition function with state de-duplication on (study, calculator internals)",
        text="Breadth-first over all event histories (enqueue, ask, suggest one of 4 parameters two of which share a name, tell any RUNNING trial COMPLETE/PRUNED/FAIL in any order, calc) up to depth 7 (thorough 10; 4 trials to depth 8) on a real in-memory study with long-lived IntersectionSearchSpace (both include_pruned) and _GroupDecomposedSearchSpace objects. At every calc: equals intersection_search_space(study.get_trials()) from scratch, is sorted, never grows once established; groups are disjoint, cover exactly the seen parameters, every finished trial is a union of groups.",
        note="In-memory storage only; partitions de-duplicate independently (state counts are an upper bound).",
        design="3/C17",
    ),
    "C18": dict(
        engine="seqx-lattice",
        category="exploration",
        technique="bounded-exhaustive enumeration of an argument lattice built from the code's branch points, compared with SciPy within stated tolerances",
        text="Every (a, b, q, x, loc, scale) tuple of a lattice placed on both sides of each switch point of _truncnorm/_erf (and batched shapes, mixtures of 1-3 components of every kind) is evaluated and compared with scipy.stats.truncnorm / scipy.special within measured-and-stated tolerances; containment, monotonicity, unit mass and NaN-freeness are checked. Weakest claim of the set: nothing is said off the lattice.",
        note="SciPy is the trusted reference; tolerances are stated in vf/c18.py and the measured maxima are written to the evidence on every run.",
        design="3/C18",
    ),
    "C19": dict(
        engine="procx",
        category="model_checking",
        technique="stateless model checking at SQL-statement level over real SQLite (single-writer lock modelled, worker death at every statement boundary) plus sequential retry-chain enumeration",
        text="2 (thorough 3) workers with their own heartbeat-enabled RDBStorage objects on one SQLite file run fail_stale_trials and/or study.ask(); every interleaving of their SQL statements up to the preemption bound, and the death of a sweeper before every statement/commit of its sweep; trial patterns: stale RUNNING (plain with param/report/user attr, enqueued with fixed params, two stale), fresh heartbeat, no heartbeat, finished with an old heartbeat; max_retry in {0,1,None}. Checked: each stale trial FAILed once a sweep completed, callback at most once per failed trial across workers, at most one retry per failure and <= max_retry in a chain, retry carries params/user attrs/fixed params and a correct retry history, protected trials untouched.",
        note="SQLite only (heartbeats exist only on RDB); each worker's RUNNING->FAIL compare-and-set is spied on, so at-most-one-winner is checked per dead trial; time is owned by the environment (heartbeat rows back-dated by SQL).",
        design="3/C19",
    ),
    "C20": dict(
        engine="seqx",
        category="model_checking",
        technique="bounded-exhaustive getter x setter-sequence x backend enumeration on a seeded study with deep state digests of the objects read",
        text="For every getter (storage.get_trial / get_all_trials with and without deepcopy and state filters / get_best_trial / get_all_studies, study.trials / get_trials / _get_trials(use_cache) / best_trial / best_trials / user_attrs / system_attrs, Trial.params / user_attrs / distributions / system_attrs), every setter and every ordered pair of setters (storage setters, Trial.suggest/report/set_user_attr, study.tell/enqueue/add_trial/ask/set_user_attr), on in-memory, journal file, gRPC proxy, cached RDB and raw RDB, from two seeded states (RUNNING trial just asked; RUNNING trial mid-way): the deep digest of the object taken at read time equals its digest after every later write, and scribbling over a deep copy leaves later reads unchanged.",
        note="Sequential histories (the writer-in-another-thread variant adds nothing for copy-on-write designs and is left to C03's atomicity check); storage-level study-attr getters are not demanded to copy.",
        design="3/C20",
    ),
}

ENGINES = [
    dict(name="procx", path="vf/simfs.py", serves_properties=["C03", "C05", "C07", "C19"],
         kind_free_text="processes as baton-scheduled threads over a simulated file system / virtual clock; every syscall a scheduling or crash point; state caching on (file image, per-process syscall-history digests)"),
    dict(name="seqx-lattice", path="vf/c15.py", serves_properties=["C10", "C11", "C15", "C18"],
         kind_free_text="bounded-exhaustive enumeration of finite argument lattices with exact or reference oracles"),
    dict(name="thx", path="vf/thx.py", serves_properties=["C03", "C04"],
         kind_free_text="stateless exploration of thread interleavings of the real code under a controlled scheduler, preemption-bounded"),
    dict(name="seqx", path="vf/c01.py", serves_properties=["C01", "C02", "C06", "C08", "C09", "C12", "C13", "C14", "C16", "C17", "C20"],
         kind_free_text="bounded-exhaustive explicit-state search over operation sequences of the real code with reference-model / brute-force oracles"),
]

NOT_BUILT_REASON = "no check is registered for this property yet (the machinery in DESIGN.md section 3 is not built for it at this commit)"


def main() -> None:
    props = [json.loads(l)["id"] for l in open(os.path.join(VERIF, "properties.jsonl"))]
    hooks_commits: list[str] = []
    checks = []
    for pid in props:
        c = CHECKS.get(pid)
        if not c:
            continue
        checks.append({
            "property_id": pid,
            "quick_cmd": f"./check {pid} --tier quick",
            "thorough_cmd": f"./check {pid} --tier thorough",
            "evidence_file": f"/verif/evidence/{pid}.json",
            "replay_cmd_template": f"./check {pid} --replay {{path}}",
            "engine": c["engine"],
            "level_claimed": {"category": c["category"], "text": c["text"], "design_ref": c["design"]},
            "level_note": c["note"],
            "technique": c["technique"],
        })
    man = {
        "version": 1,
        "setup_cmd": "true",
        "hooks": {
            "guard": "OPTUNA_VERIF",
            "enable": "none needed: the checks import optuna from /repo's working tree (editable install in /venv) and reach every seam by rebinding module-level names or instance attributes from the harness; no hook code exists in /repo",
            "baseline_off_cmd": "cd /repo && /venv/bin/python -m pytest -ra -q -p no:cacheprovider --timeout=900 --continue-on-collection-errors",
            "source_commits": hooks_commits,
            "add_only": True,
        },
        "engines": ENGINES,
        "checks": checks,
        "notes": "All checks are pure Python run by /venv/bin/python against the optuna in /repo's working tree; ./check <ID> [--tier quick|thorough]. Known findings: /verif/known_findings.json. Fix commits in /repo are listed there as status=fixed.",
        "not_applicable": [{"property_id": p, "reason": NOT_BUILT_REASON} for p in props if p not in CHECKS],
    }
    with open(os.path.join(VERIF, "MANIFEST.json"), "w") as f:
        json.dump(man, f, indent=1)
    # validate
    try:
        import jsonschema  # type: ignore

        jsonschema.validate(man, json.load(open("/root/.vp/MANIFEST.schema.json")))
        print("MANIFEST valid;", len(checks), "checks")
    except ImportError:
        r = subprocess.run(["python3-vt", "-c", "import json,jsonschema,sys; jsonschema.validate(json.load(open(sys.argv[1])), json.load(open('/root/.vp/MANIFEST.schema.json'))); print('MANIFEST valid')", os.path.join(VERIF, "MANIFEST.json")])
        print(len(checks), "checks")


if __name__ == "__main__":
    main()
