#!/bin/bash
# runs every registered quick (or thorough) command once and prints rc, wall time, alarms
cd "$(dirname "$0")/.."
tier=${1:-quick}
for id in $(/venv/bin/python -c "import json;print(' '.join(c['property_id'] for c in json.load(open('MANIFEST.json'))['checks']))"); do
  s=$(date +%s)
  out=$(./check $id --tier $tier 2>&1 | grep -v "WARNING conda")
  rc=$?
  e=$(date +%s)
  nv=$(echo "$out" | grep -c "^VIOLATION")
  nk=$(echo "$out" | grep -c "^KNOWN-FINDING")
  echo "$id rc=$(echo "$out" | tail -1 | grep -q '^\[' && echo ok || echo '?') violations=$nv known=$nk wall=$((e-s))s"
  if [ "$nv" != "0" ]; then echo "$out" | grep "^VIOLATION" | head -5 | cut -c1-220; fi
  echo "$out" | grep -i "INTERNAL-ERROR\|Traceback" | head -3
done
