#!/venv/bin/python
"""Evaluate a seeded property-breaking change (/verif/seeded/<id>/ or any directory holding
patch.diff + demo.py [+ meta.json]) WITHOUT touching /repo: the patch is applied to a scratch copy
of /repo/optuna, the demonstration is run against both trees, and the named checks are run
against the scratch copy through VF_REPO.

usage: seed_eval.py <dir> [-t quick|thorough] [--tests DIR ...] [check ids ...]
"""
import argparse
import json
import os
import shutil
import subprocess
import sys

VERIF = os.path.dirname(os.path.dirname(os.path.abspath(__file__)))


def sh(cmd, **kw):
    return subprocess.run(cmd, stdout=subprocess.PIPE, stderr=subprocess.STDOUT, text=True, **kw)


def main() -> int:
    ap = argparse.ArgumentParser()
    ap.add_argument("dir")
    ap.add_argument("-t", default="quick")
    ap.add_argument("--tests", nargs="*", default=None, help="test paths to run on the patched tree (pytest, xdist -n 6)")
    ap.add_argument("--keep", action="store_true")
    ap.add_argument("checks", nargs="*")
    a = ap.parse_args()
    d = os.path.abspath(a.dir)
    name = os.path.basename(d.rstrip("/"))
    root = f"/dev/shm/vfseed_{os.getpid()}_{name}"
    shutil.rmtree(root, ignore_errors=True)
    os.makedirs(root)
    shutil.copytree("/repo/optuna", os.path.join(root, "optuna"))
    r = sh(["patch", "-p1", "-i", os.path.join(d, "patch.diff")], cwd=root)
    if r.returncode != 0:
        print("PATCH FAILED\n" + r.stdout)
        return 2
    out = {"seed": name}
    env = dict(os.environ, PYTHONHASHSEED="0", PYTHONWARNINGS="ignore")
    demo = os.path.join(d, "demo.py")
    if os.path.exists(demo):
        r1 = sh(["/venv/bin/python", demo], env=dict(env, PYTHONPATH=root), cwd="/tmp")
        r0 = sh(["/venv/bin/python", demo], env=dict(env, PYTHONPATH="/repo"), cwd="/tmp")
        out["demo_with_change_rc"] = r1.returncode
        out["demo_without_change_rc"] = r0.returncode
        print(f"[{name}] demo: with change rc={r1.returncode} (want !=0), unmodified rc={r0.returncode} (want 0)")
        if r1.returncode == 0 or r0.returncode != 0:
            print("  demo output (with change):", r1.stdout[-600:])
            print("  demo output (unmodified):", r0.stdout[-600:])
    if a.tests is not None:
        # the repository's own tests against the patched tree
        troot = root + "_t"
        shutil.rmtree(troot, ignore_errors=True)
        os.makedirs(troot)
        shutil.copytree(os.path.join(root, "optuna"), os.path.join(troot, "optuna"))
        shutil.copytree("/repo/tests", os.path.join(troot, "tests"))
        for f in ("pyproject.toml", "setup.cfg"):
            if os.path.exists(os.path.join("/repo", f)):
                shutil.copy(os.path.join("/repo", f), troot)
        r = sh(["/venv/bin/python", os.path.join(VERIF, "tools", "baseline.py"), "--repo", troot, "-n", "8"] + list(a.tests))
        tail = [l for l in r.stdout.splitlines() if "stable=" in l or "NOT PASSED" in l]
        out["tests"] = tail
        print(f"[{name}] tests {a.tests or 'ALL'}: rc={r.returncode} " + " | ".join(tail[:6]))
        shutil.rmtree(troot, ignore_errors=True)
    results = {}
    for c in a.checks:
        r = sh([os.path.join(VERIF, "check"), c, "--tier", a.t], env=dict(os.environ, VF_REPO=root), cwd=VERIF)
        viol = [l for l in r.stdout.splitlines() if l.startswith("VIOLATION")]
        caught = r.returncode == 1 and bool(viol)
        results[c] = {"caught": caught, "rc": r.returncode, "n_violation_keys": len(viol), "first": viol[0][:240] if viol else None}
        print(f"[{name}] {c} ({a.t}): {'CAUGHT' if caught else 'MISSED rc=%d' % r.returncode} {viol[0][:200] if viol else ''}")
        if r.returncode not in (0, 1):
            print(r.stdout[-1200:])
    out["checks"] = results
    subprocess.run(["git", "checkout", "--", "evidence"], cwd=VERIF, stdout=subprocess.DEVNULL, stderr=subprocess.DEVNULL)
    if not a.keep:
        shutil.rmtree(root, ignore_errors=True)
    print(json.dumps(out))
    return 0


if __name__ == "__main__":
    sys.exit(main())
