"""Concurrent-history driver + brute-force linearizability oracle shared by C03/C04/C08/C20.

A *scenario* = (config, setup history, per-thread programs). One execution runs the programs as
real threads under thx.Sched on a fresh backend and records the call/return history with
scheduler step numbers. The oracle looks for a permutation of the calls, consistent with program
order and real-time order, whose one-at-a-time execution on a fresh instance of the SAME backend
gives the same return values and the same final observation.
"""
from __future__ import annotations

import itertools
import threading
from typing import Any, Callable

from optuna.trial import TrialState

from . import backends, thx
from .backends import Env
from .canon import canon_value
from .explore import Chooser
from .sharness import DISTS, S, template, trial_canon

# ---------------------------------------------------------------------------------------------
# operations: (name, args...) ; ids are raw backend ids established by the setup
# ---------------------------------------------------------------------------------------------


def do_op(storage: Any, op: tuple, ids: dict) -> Any:
    """Execute one op; returns a canonical return value. ids: {'s': study id, 't_run':..., ...}"""
    n = op[0]
    g = lambda k: ids[k] if isinstance(k, str) else k  # noqa: E731
    if n == "create_trial":
        tmpl = template(op[2], 1) if op[2] else None
        return ("id", storage.create_new_trial(g(op[1]), tmpl))
    if n == "set_param":
        return storage.set_trial_param(g(op[1]), op[2], op[4], DISTS[op[3]])
    if n == "user_attr":
        return storage.set_trial_user_attr(g(op[1]), op[2], op[3])
    if n == "system_attr":
        return storage.set_trial_system_attr(g(op[1]), op[2], op[3])
    if n == "study_attr":
        return storage.set_study_user_attr(g(op[1]), op[2], op[3])
    if n == "set_iv":
        return storage.set_trial_intermediate_value(g(op[1]), op[2], op[3])
    if n == "set_state":
        return storage.set_trial_state_values(g(op[1]), op[2], None if op[3] is None else list(op[3]))
    if n == "create_study":
        from optuna.study import StudyDirection

        return ("sid", storage.create_new_study([StudyDirection.MINIMIZE], op[1]))
    if n == "delete_study":
        return storage.delete_study(g(op[1]))
    if n == "get_all_trials":
        ts = storage.get_all_trials(g(op[1]), deepcopy=op[2], states=op[3])
        return tuple(trial_canon(t, None) for t in ts)
    if n == "get_trial":
        return trial_canon(storage.get_trial(g(op[1])), None)
    if n == "get_n_trials":
        return storage.get_n_trials(g(op[1]))
    if n == "get_best":
        return storage.get_best_trial(g(op[1]))._trial_id
    if n == "id_from_number":
        return storage.get_trial_id_from_study_id_trial_number(g(op[1]), op[2])
    if n == "get_all_studies":
        return tuple(sorted((fs._study_id, fs.study_name, canon_value(fs.user_attrs)) for fs in storage.get_all_studies()))
    raise ValueError(op)


def outcome(storage: Any, op: tuple, ids: dict) -> tuple:
    try:
        return ("ok", canon_value(do_op(storage, op, ids)))
    except thx.DeadlockAbort:
        raise
    except Exception as e:
        if "database is locked" in repr(e) or "database is locked" in repr(e.__cause__):
            from .core import InternalError

            raise InternalError(f"real SQLite lock conflict under an enabled choice: lock model wrong ({e!r})")
        return ("err", type(e).__name__)


def dump(storage: Any) -> Any:
    """Final observation through public getters (raw ids)."""
    out = []
    try:
        studies = sorted(storage.get_all_studies(), key=lambda s: s._study_id)
    except Exception as e:
        return ("err", type(e).__name__)
    for fs in studies:
        try:
            ts = storage.get_all_trials(fs._study_id, deepcopy=False)
            tc = tuple(trial_canon(t, None) for t in ts)
        except Exception as e:
            tc = ("err", type(e).__name__)
        out.append((fs._study_id, fs.study_name, tuple(d.name for d in fs.directions),
                    canon_value(fs.user_attrs), canon_value(fs.system_attrs), tc))
    return tuple(out)


# ---------------------------------------------------------------------------------------------
SETUPS: dict[str, list[tuple]] = {
    # name -> list of (id name, op) executed sequentially
    "std": [
        ("s", ("create_study", "S")),
        ("t_run", ("create_trial", "s", None)),
        ("t_wait", ("create_trial", "s", "bare_wait")),
        ("t_fin", ("create_trial", "s", "comp")),
    ],
}


def build(config: str, setup: str) -> tuple[Env, dict]:
    backends.reset_uuid()
    env = Env(config)
    ids: dict = {}
    for name, op in SETUPS[setup]:
        r = do_op(env.storage, op, ids)
        ids[name] = r[1] if isinstance(r, tuple) else r
    return env, ids


class SeqRunner:
    """Runs calls one at a time, each in the real thread of its logical owner (journal worker ids
    and SQLAlchemy sessions are per thread, so the sequential reference must use threads too)."""

    def __init__(self, n: int) -> None:
        self.n = n

    def run(self, order: list[tuple[int, tuple]], storage: Any, ids: dict) -> list[tuple]:
        storages = storage if isinstance(storage, list) else [storage] * self.n
        results: list = [None] * len(order)
        go = [threading.Semaphore(0) for _ in range(self.n)]
        back = threading.Semaphore(0)
        per: dict[int, list] = {i: [] for i in range(self.n)}
        for k, (ti, op) in enumerate(order):
            per[ti].append((k, op))

        def body(ti: int) -> None:
            for k, op in per[ti]:
                go[ti].acquire()
                try:
                    results[k] = outcome(storages[ti], op, ids)
                except BaseException as e:  # pragma: no cover
                    results[k] = ("err", "harness:" + type(e).__name__)
                back.release()

        ths = [threading.Thread(target=body, args=(i,), daemon=True) for i in range(self.n)]
        for t in ths:
            t.start()
        for k, (ti, op) in enumerate(order):
            go[ti].release()
            back.acquire()
        for t in ths:
            t.join()
        return results


class Scenario:
    def __init__(self, config: str, setup: str, programs: list[list[tuple]], modules: list) -> None:
        self.config = config
        self.setup = setup
        self.programs = programs
        self.modules = modules
        self.calls = [(ti, k) for ti, p in enumerate(programs) for k in range(len(p))]
        self._seq_cache: dict[tuple, tuple] = {}
        thx.set_instrumented(modules)

    # hooks for process-level scenarios (own storage object per worker, other scheduler) ----------
    def worker_storages(self, env: Env, n: int) -> list:
        return [env.storage] * n

    def make_sched(self, ch: Chooser, env: Env, storages: list) -> thx.Sched:
        thx.replace_locks(env.storage)
        if env.inner is not env.storage:
            thx.replace_locks(env.inner)
        return thx.Sched(ch)

    def end_sched(self) -> None:
        pass

    def env_config(self) -> str:
        return self.config

    def after_run(self, env: Env, final: Any) -> dict:
        """Extra observations at the end of one execution (merged into its result)."""
        return {}

    # one concurrent execution --------------------------------------------------------------------
    def execute(self, ch: Chooser) -> dict:
        env, ids = build(self.env_config(), self.setup)
        try:
            storages = self.worker_storages(env, len(self.programs))
            sched = self.make_sched(ch, env, storages)
            hist: list = []

            def mk(ti: int) -> Callable[[], None]:
                def body() -> None:
                    for k, op in enumerate(self.programs[ti]):
                        sched.point("op-start")
                        inv = sched.now()
                        res = outcome(storages[ti], op, ids)
                        resp = sched.now()
                        hist.append((ti, k, inv, resp, res))
                return body

            try:
                threads = sched.run([mk(i) for i in range(len(self.programs))])
            finally:
                self.end_sched()
            errors = [t.error for t in threads if t.error]
            final = dump(env.storage)
            out = {"hist": hist, "final": final, "deadlock": sched.deadlock, "errors": errors,
                   "trace": sched.trace, "steps": sched.step}
            out.update(self.after_run(env, final))
            return out
        finally:
            env.close()

    # sequential reference -----------------------------------------------------------------------
    def sequential(self, order: tuple) -> tuple:
        """order: tuple of (thread, k). Returns (results per call in that order, final dump)."""
        if order in self._seq_cache:
            return self._seq_cache[order]
        env, ids = build(self.env_config(), self.setup)
        try:
            calls = [(ti, self.programs[ti][k]) for ti, k in order]
            res = SeqRunner(len(self.programs)).run(calls, self.worker_storages(env, len(self.programs)), ids)
            out = (tuple(res), dump(env.storage))
        finally:
            env.close()
        self._seq_cache[order] = out
        return out

    def linearizable(self, ex: dict) -> tuple[bool, Any]:
        """Brute force over permutations consistent with program order and real time."""
        h = {(ti, k): (inv, resp, res) for ti, k, inv, resp, res in ex["hist"]}
        if len(h) != len(self.calls):
            return False, "incomplete history"
        for perm in itertools.permutations(self.calls):
            pos = {c: i for i, c in enumerate(perm)}
            ok = True
            for a in self.calls:
                for b in self.calls:
                    if a == b:
                        continue
                    # program order and real-time order: a before b if a responded before b was invoked
                    if (a[0] == b[0] and a[1] < b[1]) or h[a][1] < h[b][0]:
                        if pos[a] > pos[b]:
                            ok = False
                            break
                if not ok:
                    break
            if not ok:
                continue
            res, final = self.sequential(perm)
            if all(h[c][2] == res[i] for i, c in enumerate(perm)) and final == ex["final"]:
                return True, perm
        return False, None


class SqlScenario(Scenario):
    """Workers are "processes": each has its own RDBStorage (or _CachedStorage over its own
    RDBStorage) on the shared SQLite file; scheduling points are SQL statements (vf/sqlx.py)."""

    def __init__(self, config: str, setup: str, programs: list[list[tuple]]) -> None:
        super().__init__(config, setup, programs, [])
        self._opened: list = []

    def env_config(self) -> str:
        return "rdb"

    def worker_storages(self, env: Env, n: int) -> list:
        from optuna.storages._cached_storage import _CachedStorage

        from . import sqlx

        out = []
        for _ in range(n):
            if self.config == "rdb-shared" and out:
                out.append(out[0])  # threads sharing ONE RDBStorage (own sessions/connections)
                continue
            r = backends.open_rdb(env.raw_path)
            env._cleanup.append(r.engine.dispose)
            sqlx.attach(r)
            out.append(_CachedStorage(r) if self.config == "cached-procs" else r)
        return out

    def make_sched(self, ch: Chooser, env: Env, storages: list) -> thx.Sched:
        from . import sqlx

        sched = thx.Sched(ch)
        self._world = sqlx.SqlWorld(sched)
        sqlx.activate(self._world)
        return sched

    def end_sched(self) -> None:
        from . import sqlx

        sqlx.activate(None)


class SimfsScenario(Scenario):
    """Workers are "processes": each has its own JournalStorage(JournalFileBackend) over ONE
    simulated journal file (vf/simfs.py); scheduling points are simulated syscalls; state caching."""

    PATH = "/sim/journal.log"

    def __init__(self, config: str, setup: str, programs: list[list[tuple]]) -> None:
        from . import simfs

        super().__init__(config, setup, programs, [])
        simfs.install()
        self.lock_kind = "open" if config.endswith("open") else "sym"

    def _mk(self) -> Any:
        from optuna.storages import JournalStorage
        from optuna.storages.journal import JournalFileBackend, JournalFileOpenLock, JournalFileSymlinkLock

        lock = (JournalFileSymlinkLock if self.lock_kind == "sym" else JournalFileOpenLock)(self.PATH)
        return JournalStorage(JournalFileBackend(self.PATH, lock_obj=lock))

    def _world(self) -> tuple:
        from . import simfs

        backends.reset_uuid()
        fs = simfs.SimFS()
        simfs.activate(fs)
        s0 = self._mk()
        ids: dict = {}
        for name, op in SETUPS[self.setup]:
            r = do_op(s0, op, ids)
            ids[name] = r[1] if isinstance(r, tuple) else r
        workers = [self._mk() for _ in self.programs]
        return fs, s0, ids, workers

    def execute(self, ch: Chooser) -> dict:
        from . import simfs

        fs, s0, ids, workers = self._world()
        try:
            sched = simfs.ProcSched(ch, fs)
            hist: list = []
            sched.ghost_key = lambda: tuple((h[0], h[1], str(h[4])) for h in hist)

            def mk(ti: int) -> Callable[[], None]:
                def body() -> None:
                    for k, op in enumerate(self.programs[ti]):
                        fs.note(ti, ("op", k))
                        sched.point("op-start")
                        inv = sched.now()
                        res = outcome(workers[ti], op, ids)
                        resp = sched.now()
                        hist.append((ti, k, inv, resp, res))
                return body

            threads = sched.run([mk(i) for i in range(len(self.programs))])
            errors = [t.error for t in threads if t.error and t.error != "deadlock"]
            fs.sched = None
            final = dump(self._mk()) if not (sched.deadlock or sched.livelock) else None
            return {"hist": hist, "final": final, "deadlock": sched.deadlock or sched.livelock, "errors": errors,
                    "trace": sched.trace, "steps": sched.step}
        finally:
            simfs.activate(None)

    def sequential(self, order: tuple) -> tuple:
        from . import simfs

        if order in self._seq_cache:
            return self._seq_cache[order]
        fs, s0, ids, workers = self._world()
        try:
            calls = [(ti, self.programs[ti][k]) for ti, k in order]
            res = SeqRunner(len(self.programs)).run(calls, workers, ids)
            out = (tuple(res), dump(self._mk()))
        finally:
            simfs.activate(None)
        self._seq_cache[order] = out
        return out


class RedisScenario(Scenario):
    """Workers are "processes": each has its own JournalStorage(JournalRedisBackend) with its own
    client on ONE fakeredis server; scheduling points are Redis commands (vf/redisx.py). config
    'jredis-procs' = Lua-atomic appends, 'jredis-cluster-procs' = use_cluster=True (INCR then SET)."""

    def __init__(self, config: str, setup: str, programs: list[list[tuple]]) -> None:
        from . import redisx

        super().__init__(config, setup, programs, [])
        redisx.install()
        self.cluster = "cluster" in config

    def _mk(self, server: Any) -> Any:
        import warnings

        import fakeredis
        from optuna.storages import JournalStorage
        from optuna.storages.journal import JournalRedisBackend

        from . import redisx

        with warnings.catch_warnings():
            warnings.simplefilter("ignore")
            b = JournalRedisBackend("redis://localhost", use_cluster=self.cluster)
        b._redis = redisx.SchedRedis(fakeredis.FakeStrictRedis(server=server))
        return JournalStorage(b)

    def _world(self) -> tuple:
        import fakeredis

        backends.reset_uuid()
        server = fakeredis.FakeServer()
        s0 = self._mk(server)
        ids: dict = {}
        for name, op in SETUPS[self.setup]:
            r = do_op(s0, op, ids)
            ids[name] = r[1] if isinstance(r, tuple) else r
        workers = [self._mk(server) for _ in self.programs]
        return server, ids, workers

    def execute(self, ch: Chooser) -> dict:
        from . import redisx

        server, ids, workers = self._world()
        sched = redisx.PollSched(ch)
        hist: list = []

        def mk(ti: int) -> Callable[[], None]:
            def body() -> None:
                for k, op in enumerate(self.programs[ti]):
                    sched.point("op-start")
                    inv = sched.now()
                    res = outcome(workers[ti], op, ids)
                    resp = sched.now()
                    hist.append((ti, k, inv, resp, res))
            return body

        threads = sched.run([mk(i) for i in range(len(self.programs))])
        errors = [t.error for t in threads if t.error and t.error != "deadlock"]
        stuck = sched.deadlock or sched.livelock
        final = None
        diverged = []
        if not stuck:
            final = dump(self._mk(server))
            for i, w in enumerate(workers):
                try:
                    if dump(w) != final:
                        diverged.append(i)
                except Exception as e:
                    diverged.append((i, type(e).__name__))
        return {"hist": hist, "final": final, "deadlock": stuck, "errors": errors, "trace": sched.trace, "steps": sched.step,
                "diverged": diverged}

    def sequential(self, order: tuple) -> tuple:
        if order in self._seq_cache:
            return self._seq_cache[order]
        server, ids, workers = self._world()
        calls = [(ti, self.programs[ti][k]) for ti, k in order]
        res = SeqRunner(len(self.programs)).run(calls, workers, ids)
        out = (tuple(res), dump(self._mk(server)))
        self._seq_cache[order] = out
        return out
