"""Storage harness: applies one operation to the reference model and to a real backend through a
model-id <-> backend-id bijection, and takes the full observation (all public getters) of both.

Used by C01 (contract), and by C03/C05/C06/C08/C20 for canonical observations.
"""
from __future__ import annotations

import datetime
from typing import Any

from optuna.distributions import (
    CategoricalDistribution,
    FloatDistribution,
    IntDistribution,
    distribution_to_json,
)
from optuna.storages._base import DEFAULT_STUDY_NAME_PREFIX
from optuna.study import StudyDirection
from optuna.trial import FrozenTrial, TrialState

from .canon import canon_value
from .refmodel import RefStorage

MIN, MAX = StudyDirection.MINIMIZE, StudyDirection.MAXIMIZE
S = TrialState
NEVER = 987654  # an id no backend has issued

DISTS = {
    "f": FloatDistribution(0.0, 1.0),
    "fl": FloatDistribution(1e-3, 1.0, log=True),
    "fs": FloatDistribution(0.0, 1.0, step=0.25),
    "i": IntDistribution(0, 10),
    "is": IntDistribution(0, 10, step=2),
    "c": CategoricalDistribution((None, "a", 1, 2.5, True)),
    "c2": CategoricalDistribution(("x", "y")),
}
DT0 = datetime.datetime(2020, 1, 2, 3, 4, 5, 678901)
DT1 = datetime.datetime(2021, 2, 3, 4, 5, 6, 789012)


def template(kind: str, n_obj: int = 1) -> FrozenTrial:
    """Template trials that pass FrozenTrial._validate() and carry every field."""
    state = {"run": S.RUNNING, "wait": S.WAITING, "comp": S.COMPLETE, "pruned": S.PRUNED,
             "pruned_nan": S.PRUNED, "fail": S.FAIL, "comp_inf": S.COMPLETE, "bare_wait": S.WAITING}[kind]
    values: Any = None
    if kind == "comp":
        values = [1.0] if n_obj == 1 else [1.0, float("-inf")] + [0.5] * (n_obj - 2)
    elif kind == "comp_inf":
        values = [float("inf")] * n_obj
    elif kind == "pruned":
        values = [0.25] * n_obj
    elif kind == "pruned_nan":
        values = [float("nan")] * n_obj
    full = kind != "bare_wait"
    params = {"x": 0.5, "k": 4, "c": None} if full else {}
    dists = {"x": DISTS["f"], "k": DISTS["is"], "c": DISTS["c"]} if full else {}
    t = FrozenTrial(
        number=-1, trial_id=-1, state=state, value=None, values=values,
        datetime_start=None if state == S.WAITING else DT0,
        datetime_complete=DT1 if state.is_finished() else None,
        params=params, distributions=dists,
        user_attrs={"u": [1, {"k": None}], "u2": "s"} if full else {},
        system_attrs={"fixed_params": {"x": 0.5}, "s": 1.5} if full else {},
        intermediate_values={0: 1.0, 2: float("nan"), 3: float("inf")} if full and state != S.WAITING else {},
    )
    t._validate()
    return t


TEMPLATE_KINDS = ["run", "wait", "comp", "pruned", "pruned_nan", "fail", "comp_inf", "bare_wait"]


class Binding:
    def __init__(self) -> None:
        self.s_m2i: dict[int, int] = {}
        self.s_i2m: dict[int, int] = {}
        self.t_m2i: dict[int, int] = {}
        self.t_i2m: dict[int, int] = {}
        self.retired_s: set[int] = set()  # model ids whose backend id has been re-issued
        self.retired_t: set[int] = set()

    def bind_study(self, m: int, i: int) -> None:
        old = self.s_i2m.get(i)
        if old is not None:
            self.retired_s.add(old)
        self.s_m2i[m] = i
        self.s_i2m[i] = m

    def bind_trial(self, m: int, i: int) -> None:
        old = self.t_i2m.get(i)
        if old is not None:
            self.retired_t.add(old)
        self.t_m2i[m] = i
        self.t_i2m[i] = m

    def si(self, m: int) -> int:
        return self.s_m2i.get(m, NEVER)

    def ti(self, m: int) -> int:
        return self.t_m2i.get(m, NEVER)


def _outcome(fn, *a, **k) -> tuple[str, Any]:
    try:
        return ("ok", fn(*a, **k))
    except Exception as e:
        return ("err", type(e).__name__)


def targets_retired(op: tuple, b: Binding) -> bool:
    """True when op addresses a dead handle whose backend id has since been re-issued (SQLite
    re-uses rowids): the raw id now names another live object, so the handle is not usable."""
    name = op[0]
    if name == "create_study":
        return False
    if name in ("delete_study", "study_user_attr", "study_system_attr", "create_trial", "read_waiting", "read_all"):
        return op[1] in b.retired_s
    return op[1] in b.retired_t


def apply_op(op: tuple, model: RefStorage, storage: Any, b: Binding) -> tuple[tuple, tuple]:
    """Apply op to model and backend. Returns (model outcome, backend outcome), each
    ('ok', value) / ('err', exception class name). Creation ops bind ids."""
    name = op[0]
    if name == "create_study":
        _, sname, dirs = op
        mo = _outcome(model.create_new_study, list(dirs), sname)
        io = _outcome(storage.create_new_study, list(dirs), sname)
        if mo[0] == "ok" and io[0] == "ok":
            if io[1] in b.s_i2m and b.s_i2m[io[1]] in model.studies and b.s_i2m[io[1]] != mo[1]:
                return mo, ("ok", "id-of-live-study")
            b.bind_study(mo[1], io[1])
            return ("ok", "id"), ("ok", "id")
        return mo, io
    if name == "delete_study":
        return _outcome(model.delete_study, op[1]), _outcome(storage.delete_study, b.si(op[1]))
    if name in ("study_user_attr", "study_system_attr"):
        meth = "set_" + name
        return (_outcome(getattr(model, meth), op[1], op[2], op[3]),
                _outcome(getattr(storage, meth), b.si(op[1]), op[2], op[3]))
    if name == "create_trial":
        _, sid, kind = op
        tmpl = None
        if kind is not None:
            n_obj = len(model.studies[sid]["directions"]) if sid in model.studies else 1
            tmpl = template(kind, n_obj)
        mo = _outcome(model.create_new_trial, sid, tmpl)
        io = _outcome(storage.create_new_trial, b.si(sid), tmpl)
        if tmpl is not None:
            # the caller keeps using its template object: the stored trial must not alias any part of it
            for d in (tmpl.params, tmpl.distributions, tmpl.user_attrs, tmpl.system_attrs, tmpl.intermediate_values):
                for k in list(d):
                    if isinstance(d[k], (dict, list)):
                        d[k].clear()
                    d[k] = "scribbled"
                d["scribbled"] = 1
        if mo[0] == "ok" and io[0] == "ok":
            if io[1] in b.t_i2m and b.t_i2m[io[1]] in model.trials and b.t_i2m[io[1]] != mo[1]:
                return mo, ("ok", "id-of-live-trial")
            b.bind_trial(mo[1], io[1])
            return ("ok", "id"), ("ok", "id")
        return mo, io
    if name == "set_param":
        _, tid, pname, dname, internal = op
        d = DISTS[dname]
        return (_outcome(model.set_trial_param, tid, pname, internal, d),
                _outcome(storage.set_trial_param, b.ti(tid), pname, internal, d))
    if name == "set_state":
        _, tid, state, values = op
        v = None if values is None else list(values)
        return (_outcome(model.set_trial_state_values, tid, state, v),
                _outcome(storage.set_trial_state_values, b.ti(tid), state, None if v is None else list(v)))
    if name == "set_iv":
        _, tid, step, val = op
        return (_outcome(model.set_trial_intermediate_value, tid, step, val),
                _outcome(storage.set_trial_intermediate_value, b.ti(tid), step, val))
    if name in ("trial_user_attr", "trial_system_attr"):
        meth = "set_" + name
        return (_outcome(getattr(model, meth), op[1], op[2], op[3]),
                _outcome(getattr(storage, meth), b.ti(op[1]), op[2], op[3]))
    if name == "read_waiting":  # the getter with a side effect (cursor) - result compared
        sid = op[1]
        mo = _outcome(lambda: [model_trial_canon(model, t) for t in model._study(sid)["trials"]
                               if model.trials[t]["state"] == S.WAITING])
        io = _outcome(lambda: [trial_canon(t, b) for t in
                               storage.get_all_trials(b.si(sid), deepcopy=op[2], states=(S.WAITING,))])
        return mo, io
    if name == "read_all":  # moves cache watermarks
        sid = op[1]
        mo = _outcome(lambda: [model_trial_canon(model, t) for t in model._study(sid)["trials"]])
        io = _outcome(lambda: [trial_canon(t, b) for t in storage.get_all_trials(b.si(sid), deepcopy=op[2])])
        return mo, io
    raise ValueError(op)


# ---------------------------------------------------------------------------------------------
# canonical trial / observation
# ---------------------------------------------------------------------------------------------
def _dt(model_v: Any, impl_v: Any = None) -> Any:
    return model_v


def trial_canon(t: FrozenTrial, b: Binding | None, dt_exact: dict | None = None) -> tuple:
    tid = t._trial_id if b is None else b.t_i2m.get(t._trial_id, ("unbound", t._trial_id))
    return (
        ("id", tid), ("number", t.number), ("state", t.state.name),
        ("values", None if t.values is None else canon_value(list(t.values))),
        ("params", canon_value(dict(t.params))),
        ("dists", canon_value({k: distribution_to_json(v) for k, v in t.distributions.items()})),
        ("user_attrs", canon_value(t.user_attrs)), ("system_attrs", canon_value(t.system_attrs)),
        ("iv", canon_value(dict(t.intermediate_values))),
        ("dt_start", _dtc(t.datetime_start)), ("dt_complete", _dtc(t.datetime_complete)),
    )


def _dtc(x: Any) -> Any:
    """Datetimes: template datetimes (DT0/DT1) are compared exactly, others by None-ness."""
    if x is None:
        return None
    if x == "set":
        return "set"
    if x in (DT0, DT1):
        return x.isoformat()
    return "set"


def model_trial_canon(model: RefStorage, tid: int) -> tuple:
    t = model.trials[tid]
    return (
        ("id", tid), ("number", t["number"]), ("state", t["state"].name),
        ("values", None if t["values"] is None else canon_value(list(t["values"]))),
        ("params", canon_value(t["params"])),
        ("dists", canon_value({k: distribution_to_json(v) for k, v in t["distributions"].items()})),
        ("user_attrs", canon_value(t["user_attrs"])), ("system_attrs", canon_value(t["system_attrs"])),
        ("iv", canon_value(t["intermediate_values"])),
        ("dt_start", _dtc(t["dt_start"])), ("dt_complete", _dtc(t["dt_complete"])),
    )


def _cname(n: Any) -> Any:
    if isinstance(n, str) and n.startswith(DEFAULT_STUDY_NAME_PREFIX):
        return "<anon>"
    return n


FILTERS = {
    "none": None,
    "complete": (S.COMPLETE,),
    "waiting_list": [S.WAITING],  # a list: not the special-cased tuple, no cursor side effect
    "unfinished": (S.RUNNING, S.WAITING),
    "fin": [S.PRUNED, S.FAIL],
}


def observe_model(model: RefStorage, b: Binding, level: str = "full") -> dict:
    o: dict = {}
    o[("all_studies",)] = canon_value({
        sid: ("<anon>" if s["name"] is None else s["name"], [d.name for d in s["directions"]],
              s["user_attrs"], s["system_attrs"]) for sid, s in model.studies.items()})
    for sid, s in model.studies.items():
        name = "<anon>" if s["name"] is None else s["name"]
        o[("study", sid, "name")] = ("ok", name)
        o[("study", sid, "id_from_name")] = ("ok", sid)
        o[("study", sid, "directions")] = ("ok", tuple(d.name for d in s["directions"]))
        o[("study", sid, "user_attrs")] = ("ok", canon_value(s["user_attrs"]))
        o[("study", sid, "system_attrs")] = ("ok", canon_value(s["system_attrs"]))
        for fname, f in FILTERS.items():
            if level != "full" and fname not in ("none", "unfinished"):
                continue
            sel = [t for t in s["trials"] if f is None or model.trials[t]["state"] in f]
            o[("study", sid, "all_trials", fname)] = ("ok", tuple(model_trial_canon(model, t) for t in sel))
        o[("study", sid, "n_trials")] = ("ok", len(s["trials"]))
        o[("study", sid, "n_complete")] = ("ok", sum(1 for t in s["trials"] if model.trials[t]["state"] == S.COMPLETE))
        o[("study", sid, "best")] = model.best_trial_candidates(sid)
        for n, tid in enumerate(s["trials"]):
            o[("study", sid, "id_from_number", n)] = ("ok", tid)
        o[("study", sid, "id_from_number", len(s["trials"]))] = ("err", "KeyError")
    for sid in model.dead_studies:
        if sid in b.retired_s:
            continue
        o[("dead_study", sid, "name")] = ("err", "KeyError")
        o[("dead_study", sid, "all_trials")] = ("err", "KeyError")
        o[("dead_study", sid, "directions")] = ("err", "KeyError")
        o[("dead_study", sid, "id_from_number")] = ("err", "KeyError")
    for tid, t in model.trials.items():
        o[("trial", tid, "get_trial")] = ("ok", model_trial_canon(model, tid))
        if level == "full":
            o[("trial", tid, "number")] = ("ok", t["number"])
            o[("trial", tid, "params")] = ("ok", canon_value(t["params"]))
            o[("trial", tid, "user_attrs")] = ("ok", canon_value(t["user_attrs"]))
            o[("trial", tid, "system_attrs")] = ("ok", canon_value(t["system_attrs"]))
            for p, d in t["distributions"].items():
                o[("trial", tid, "param", p)] = ("ok", canon_value(d.to_internal_repr(t["params"][p])))
            o[("trial", tid, "param", "<missing>")] = ("err", "KeyError")
    for tid in model.dead_trials:
        if tid in b.retired_t or tid not in b.t_m2i:
            continue
        o[("dead_trial", tid, "get_trial")] = ("err", "KeyError")
    o[("never", "get_trial")] = ("err", "KeyError")
    o[("never", "study_name")] = ("err", "KeyError")
    o[("never", "id_from_name")] = ("err", "KeyError")
    return o


def observe_impl(storage: Any, model: RefStorage, b: Binding, level: str = "full") -> dict:
    """Same keys as observe_model, answered by the backend through its public getters. The model is
    consulted only for *which handles to ask about*."""
    o: dict = {}

    def oc(fn, *a, conv=lambda x: x, **k):
        try:
            return ("ok", conv(fn(*a, **k)))
        except Exception as e:
            return ("err", type(e).__name__)

    try:
        studies = storage.get_all_studies()
        o[("all_studies",)] = canon_value({
            b.s_i2m.get(fs._study_id, ("unbound", fs._study_id)):
                (_cname(fs.study_name), [d.name for d in fs.directions], fs.user_attrs, fs.system_attrs)
            for fs in studies})
    except Exception as e:
        o[("all_studies",)] = ("err", type(e).__name__)
    for sid, s in model.studies.items():
        i = b.si(sid)
        nm = oc(storage.get_study_name_from_id, i)
        o[("study", sid, "name")] = (nm[0], _cname(nm[1]))
        if nm[0] == "ok":
            o[("study", sid, "id_from_name")] = oc(storage.get_study_id_from_name, nm[1],
                                                   conv=lambda x: b.s_i2m.get(x, ("unbound", x)))
        else:
            o[("study", sid, "id_from_name")] = ("skipped", None)
        o[("study", sid, "directions")] = oc(storage.get_study_directions, i, conv=lambda ds: tuple(d.name for d in ds))
        o[("study", sid, "user_attrs")] = oc(storage.get_study_user_attrs, i, conv=canon_value)
        o[("study", sid, "system_attrs")] = oc(storage.get_study_system_attrs, i, conv=canon_value)
        for fname, f in FILTERS.items():
            if level != "full" and fname not in ("none", "unfinished"):
                continue
            o[("study", sid, "all_trials", fname)] = oc(
                storage.get_all_trials, i, deepcopy=(fname != "complete"), states=f,
                conv=lambda ts: tuple(trial_canon(t, b) for t in ts))
        o[("study", sid, "n_trials")] = oc(storage.get_n_trials, i)
        o[("study", sid, "n_complete")] = oc(storage.get_n_trials, i, S.COMPLETE)
        o[("study", sid, "best")] = oc(storage.get_best_trial, i, conv=lambda t: b.t_i2m.get(t._trial_id, ("unbound", t._trial_id)))
        for n, tid in enumerate(s["trials"]):
            o[("study", sid, "id_from_number", n)] = oc(
                storage.get_trial_id_from_study_id_trial_number, i, n, conv=lambda x: b.t_i2m.get(x, ("unbound", x)))
        o[("study", sid, "id_from_number", len(s["trials"]))] = oc(
            storage.get_trial_id_from_study_id_trial_number, i, len(s["trials"]), conv=lambda x: ("id", x))
    for sid in model.dead_studies:
        if sid in b.retired_s:
            continue
        i = b.si(sid)
        o[("dead_study", sid, "name")] = oc(storage.get_study_name_from_id, i)
        o[("dead_study", sid, "all_trials")] = oc(storage.get_all_trials, i, conv=len)
        o[("dead_study", sid, "directions")] = oc(storage.get_study_directions, i, conv=lambda ds: tuple(d.name for d in ds))
        o[("dead_study", sid, "id_from_number")] = oc(storage.get_trial_id_from_study_id_trial_number, i, 0)
    for tid, t in model.trials.items():
        i = b.ti(tid)
        o[("trial", tid, "get_trial")] = oc(storage.get_trial, i, conv=lambda ft: trial_canon(ft, b))
        if level == "full":
            o[("trial", tid, "number")] = oc(storage.get_trial_number_from_id, i)
            o[("trial", tid, "params")] = oc(storage.get_trial_params, i, conv=canon_value)
            o[("trial", tid, "user_attrs")] = oc(storage.get_trial_user_attrs, i, conv=canon_value)
            o[("trial", tid, "system_attrs")] = oc(storage.get_trial_system_attrs, i, conv=canon_value)
            for p in t["distributions"]:
                o[("trial", tid, "param", p)] = oc(storage.get_trial_param, i, p, conv=canon_value)
            o[("trial", tid, "param", "<missing>")] = oc(storage.get_trial_param, i, "<missing>")
    for tid in model.dead_trials:
        if tid in b.retired_t or tid not in b.t_m2i:
            continue
        o[("dead_trial", tid, "get_trial")] = oc(storage.get_trial, b.ti(tid), conv=lambda ft: ft.state.name)
    o[("never", "get_trial")] = oc(storage.get_trial, NEVER, conv=lambda ft: ft.state.name)
    o[("never", "study_name")] = oc(storage.get_study_name_from_id, NEVER)
    o[("never", "id_from_name")] = oc(storage.get_study_id_from_name, "never-created")
    return o


def compare_obs(mo: dict, io: dict) -> list[tuple]:
    """List of (key, expected, observed) for every clause that differs."""
    diffs = []
    for k, mv in mo.items():
        iv = io.get(k, ("missing", None))
        if k[-1] == "best" and len(k) == 3:
            kind, acc = mv
            if kind == "ok":
                if not (iv[0] == "ok" and iv[1] in acc):
                    diffs.append((k, ("ok", sorted(acc)), iv))
            else:
                if not (iv[0] == "err" and iv[1] in acc):
                    diffs.append((k, ("err", sorted(acc)), iv))
            continue
        if iv[0] == "skipped":
            continue
        if mv != iv:
            diffs.append((k, mv, iv))
    return diffs


def clause_of(key: tuple) -> str:
    """Finding-key fragment for an observation key: ids dropped."""
    return "/".join(str(p) for p in key if not isinstance(p, int))


def diff_class(exp: Any, got: Any) -> str:
    """Coarse class of a divergence for finding keys."""
    def cls(x):
        if isinstance(x, tuple) and len(x) == 2 and x[0] in ("ok", "err", "missing"):
            if x[0] == "err":
                return f"err:{x[1]}"
            if x[0] == "missing":
                return "missing"
            return "ok"
        return "val"
    return f"{cls(exp)}->{cls(got)}"
