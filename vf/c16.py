"""C16 - pruners never prune what their contract protects.

Bounded-exhaustive enumeration (no sampling) on REAL studies (create_study + InMemoryStorage +
RandomSampler(seed=0), both directions): every pruner setting of a grid x every history of OTHER
trials (COMPLETE / PRUNED / RUNNING, intermediate values with gaps and NaN) of a lattice x every
report sequence of the CURRENT trial of a lattice; the pruner is asked after every report (and once
before the first one). The enumeration is a union of exhaustive product blocks (see blocks());
sub-lattices are chosen so that a wide parameter grid meets small histories and a small parameter
grid meets large histories.

Contract reading (line numbers: optuna/pruners/*.py of the tree under test)
  warm-up        _percentile.py:122-124 / _median.py:56-58 "disabled until the trial exceeds the given
                 number of step ... step starts at zero", _threshold.py:72-73 "disabled if the step is
                 less than ...", _trial.py:466-468 "simply checks if step is less than n_warmup_steps":
                 protected <=> step < n_warmup_steps.
  start-up       _percentile.py:120-121 "disabled until the given number of trials finish": protected
                 <=> fewer than n_startup_trials other trials are in a finished state (COMPLETE or PRUNED
                 here; the code counts COMPLETE only, which protects a superset - no clause demands
                 pruning, so both readings accept the current code).
  interval       _percentile.py:125-128 / _threshold.py:74-77: checks at n_warmup_steps + k*interval_steps,
                 a check without a report is postponed to the next report. Step s is a checking step <=>
                 s >= warm-up and no earlier report of this trial lies in [c, s) where c is the largest
                 check point <= s. Outside checking steps percentile/median/threshold must not prune.
  n_min_trials   _percentile.py:129-133: fewer than n_min_trials values reported at the step by ALL trials
                 (the current one included) => not pruned. (Only asserted when the current trial has a
                 non-NaN value; an all-NaN trial IS pruned by the code before n_min_trials is looked at -
                 counted as obs_all_nan_trial_pruned_below_n_min_trials, not a violation: NaN handling is
                 outside the property statement.)
  dominant       statement: every reported value of the current trial (none NaN) strictly better than every
                 non-NaN value reported by any other trial (any state) => median / percentile / SHA
                 (bootstrap 0) / Hyperband / Patient(Median) return False.
  SHA            _successive_halving.py:79-83 "never pruned until it executes min_resource *
                 reduction_factor**min_early_stopping_rate steps": protected <=> step < that product (the
                 code's comparison); 'auto' (76-77, 217-227): undetermined while no COMPLETE trial has a
                 report => not pruned, afterwards max(last_step // 100, 1).
  Hyperband      bracket b is SHA with min_early_stopping_rate=b (_hyperband.py:211-216): protected <=>
                 step < min_resource * reduction_factor**b; _get_bracket_id (232-254) must be a function of
                 (study_name, trial.number): same answer from the study's pruner, from a fresh pruner, after
                 unrelated trials were added / finished, and for a same-named study in another storage
                 whose trial ids are shifted.
  Patient        _patient.py:59-61, code 90: fewer than patience+2 reports => False; if the best of the last
                 patience+1 reports is strictly better than the best earlier report by at least min_delta
                 => False; with a wrapped pruner a True answer requires the wrapped pruner's True (55-58);
                 wrapped None: the answer depends on the trial's own values only (57-58).
  Threshold      _threshold.py:27-28, 65-77: True IFF checking step and latest value is NaN, < lower or > upper.
  Nop            always False.
  no report      _trial.py:512-515: before the first report every pruner answers False.

Mutations of optuna this check must catch (ALL verified on a scratch copy with --tier quick; the
violation keys observed are listed):
  M1 _percentile.py _is_first_in_interval_step: alignment without the warm-up offset
     (`step // interval_steps * interval_steps`)
     -> median|/percentile|pruned-between-interval-checks|{minimize,maximize},
        threshold|prunes-iff-checked-value-nan-or-out-of-bounds|expected-{True,False}
  M2 _successive_halving.py _is_trial_promotable_to_next_rung: MINIMIZE branch returns
     `value >= competing_values[-(promotable_idx + 1)]` (direction mix-up); likewise `>` for `>=` in
     the MAXIMIZE branch -> sha|dominant-trial-pruned|minimize (resp. maximize), hyperband|dominant-trial-pruned|...
  M3 _threshold.py: `latest_value >= self._upper` -> threshold|prunes-iff-checked-value-nan-or-out-of-bounds|expected-False
  M4 _patient.py: MINIMIZE uses np.nanmax(scores_after_patience) -> patient|pruned-while-improving-within-patience|minimize
  M5 _hyperband.py _get_bracket_id: trial._trial_id instead of trial.number
     -> hyperband|bracket-depends-on-more-than-name-and-number
  M6 _percentile.py prune: states=(COMPLETE, RUNNING) for the start-up count
     -> median|/percentile|pruned-before-startup-trials-finished|{minimize,maximize}
  M7 _percentile.py prune: `step < n_warmup_steps - 1` -> median|/percentile|pruned-during-warmup|...
  M8 _threshold.py prune: `step <= n_warmup_steps` -> threshold|prunes-iff-...|expected-True
  M9 _successive_halving.py prune: `step < rung_promotion_step - 1`
     -> sha|pruned-before-first-rung|..., hyperband|pruned-before-min-resource|..., hyperband|pruned-before-first-rung-of-bracket|...
  M10 _successive_halving.py _estimate_min_resource: RUNNING trials counted too
     -> sha|pruned-before-auto-min-resource-determined|...
  M11 _nop.py: prune after step 2 -> nop|nop-pruned|...
  also: promotable_idx off by one (`- 2`) -> sha|raised-IndexError, _patient.py `steps.size <= patience` ->
  patient|raised-ValueError (an exception inside should_prune is reported as a violation, never as a pass).
  By construction NOT caught (safety oracle): mutations that only make a pruner more conservative, e.g.
  `step <= n_warmup_steps` in _percentile.py (the same edit in _threshold.py is caught by the IFF, M8).
"""
from __future__ import annotations

import binascii
import itertools
import json
import math
from functools import lru_cache
from typing import Any

import optuna
from optuna.trial import TrialState, create_trial

from . import backends
from .core import Ctx, Part, main_wrapper, pmap

PID = "C16"
NAN = float("nan")
STEPS = (0, 1, 2, 3)
DIRS = ("minimize", "maximize")
STATES = {"C": TrialState.COMPLETE, "P": TrialState.PRUNED, "R": TrialState.RUNNING}


# ------------------------------------------------------------------------------------------------
# lattices
# ------------------------------------------------------------------------------------------------
def subsets(universe: tuple) -> list[tuple]:
    return [c for r in range(len(universe) + 1) for c in itertools.combinations(universe, r)]


def assignments(stepsets: list[tuple], values: tuple) -> list[tuple]:
    """All ((step, value), ...) over the given step sets and value set."""
    out = []
    for ss in stepsets:
        for vs in itertools.product(values, repeat=len(ss)):
            out.append(tuple(zip(ss, vs)))
    return out


def const_assignments(stepsets: list[tuple], values: tuple) -> list[tuple]:
    out = []
    for ss in stepsets:
        if not ss:
            out.append(())
            continue
        for v in values:
            out.append(tuple((s, v) for s in ss))
    return out


# report sequences of the current trial: every non-empty increasing step sequence is a prefix of one
# that ends with step 3, and the pruner is asked after every report, so only those are executed
CUR_STEPSETS = [ss for ss in subsets(STEPS) if ss and ss[-1] == 3]  # 8
SEQ_FULL = assignments(CUR_STEPSETS, (-1.0, 0.0, 1.0, 2.0, 3.0, NAN))  # 2058
SEQ_EXT = assignments(CUR_STEPSETS, (-1.0, 3.0, NAN))  # 192: better / worse than all others, NaN
SEQ_CONST = const_assignments(CUR_STEPSETS, (-1.0, 3.0, NAN))  # 24
SEQ_CONST2 = const_assignments(CUR_STEPSETS, (-1.0, 3.0))  # 16

# out-of-order reports (legal: any step may be reported at any time, once): every non-increasing
# order of every step set with at least three steps, values better / worse than all others
SEQ_PERM = [tuple(zip(perm, vs))
            for ss in subsets(STEPS) if len(ss) >= 3
            for perm in itertools.permutations(ss) if perm != ss
            for vs in itertools.product((-1.0, 3.0), repeat=len(ss))]

FULL4 = (0, 1, 2, 3)
IV_FULL = assignments(subsets(STEPS), (0.0, 1.0, 2.0, NAN))  # 625
IV_MID = assignments([(), FULL4, (0, 2), (1, 3), (3,), (0, 1)], (0.0, 2.0, NAN))  # 112
IV_SMALL = [
    (),
    tuple((s, 1.0) for s in FULL4),
    ((0, 0.0), (1, NAN), (2, 2.0), (3, 1.0)),
    ((1, 1.0), (3, 1.0)),
    tuple((s, NAN) for s in FULL4),
]
IV_TINY = [tuple((s, 1.0) for s in FULL4), ((0, 0.0), (1, NAN), (2, 2.0), (3, 1.0)), ((1, 1.0), (3, 1.0))]


def kinds(ivs: list[tuple], states: str = "CPR") -> list[tuple]:
    return [(st, iv) for st in states for iv in ivs]


def hist_upto(ks: list[tuple], n: int, ordered: bool = True, exactly: bool = False) -> list[tuple]:
    out: list[tuple] = []
    for r in range(n + 1):
        if exactly and r != n:
            continue
        it = itertools.product(ks, repeat=r) if ordered else itertools.combinations_with_replacement(ks, r)
        out.extend(it)
    return out


# ------------------------------------------------------------------------------------------------
# pruner grids
# ------------------------------------------------------------------------------------------------
def grid_percentile() -> list[tuple]:
    g = []
    for ns in (0, 1, 2):
        for nw in (0, 1, 2):
            for iv in (1, 2, 3):
                for nm in (1, 2):
                    g.append(("median", 50.0, ns, nw, iv, nm))
                    for pct in (25.0, 50.0, 75.0):
                        g.append(("percentile", pct, ns, nw, iv, nm))
    return g  # 216


def grid_percentile_values() -> list[tuple]:
    g = [("median", 50.0, 0, 0, 1, 1)]
    for pct in (25.0, 50.0, 75.0):
        for nm in (1, 2):
            for ns in (0, 1):
                g.append(("percentile", pct, ns, 0, 1, nm))
    return g  # 13


def grid_sha() -> list[tuple]:
    return [("sha", mr, rf, mesr) for mr in (1, 2, "auto") for rf in (2, 3) for mesr in (0, 1)]  # 12


HB_SETTINGS = [(1, 4, 2), (1, 9, 3)]


def grid_patient() -> list[tuple]:
    return [("patient", w, p, float(md)) for w in ("none", "median") for p in (0, 1, 2) for md in (0, 1)]  # 12


def grid_threshold() -> list[tuple]:
    g = []
    for lo in (None, 0.0, 1.0):
        for up in (None, 0.0, 1.0):
            if lo is None and up is None:
                continue
            if lo is not None and up is not None and lo > up:
                continue
            for nw in (0, 1):
                for iv in (1, 2):
                    g.append(("threshold", lo, up, nw, iv))
    return g  # 28


def mk_pruner(cfg: tuple) -> Any:
    k = cfg[0]
    P = optuna.pruners
    if k == "median":
        return P.MedianPruner(n_startup_trials=cfg[2], n_warmup_steps=cfg[3], interval_steps=cfg[4], n_min_trials=cfg[5])
    if k == "percentile":
        return P.PercentilePruner(cfg[1], n_startup_trials=cfg[2], n_warmup_steps=cfg[3], interval_steps=cfg[4],
                                  n_min_trials=cfg[5])
    if k == "sha":
        return P.SuccessiveHalvingPruner(min_resource=cfg[1], reduction_factor=cfg[2], min_early_stopping_rate=cfg[3],
                                         bootstrap_count=0)
    if k == "hyperband":
        return P.HyperbandPruner(min_resource=cfg[1], max_resource=cfg[2], reduction_factor=cfg[3])
    if k == "patient":
        w = None if cfg[1] == "none" else P.MedianPruner(n_startup_trials=0, n_warmup_steps=0)
        return P.PatientPruner(w, patience=cfg[2], min_delta=cfg[3])
    if k == "threshold":
        return P.ThresholdPruner(lower=cfg[1], upper=cfg[2], n_warmup_steps=cfg[3], interval_steps=cfg[4])
    if k == "nop":
        return P.NopPruner()
    raise ValueError(k)


def cfg_dict(cfg: tuple) -> dict:
    k = cfg[0]
    if k in ("median", "percentile"):
        return {"pruner": k, "percentile": cfg[1], "n_startup_trials": cfg[2], "n_warmup_steps": cfg[3],
                "interval_steps": cfg[4], "n_min_trials": cfg[5]}
    if k == "sha":
        return {"pruner": k, "min_resource": cfg[1], "reduction_factor": cfg[2], "min_early_stopping_rate": cfg[3],
                "bootstrap_count": 0}
    if k == "hyperband":
        return {"pruner": k, "min_resource": cfg[1], "max_resource": cfg[2], "reduction_factor": cfg[3],
                "study_name": cfg[4]}
    if k == "patient":
        return {"pruner": k, "wrapped": cfg[1] + ("(n_startup_trials=0,n_warmup_steps=0)" if cfg[1] == "median" else ""),
                "patience": cfg[2], "min_delta": cfg[3]}
    if k == "threshold":
        return {"pruner": k, "lower": cfg[1], "upper": cfg[2], "n_warmup_steps": cfg[3], "interval_steps": cfg[4]}
    return {"pruner": k}


# Hyperband study names: found with an independent model of the documented crc32 rule, so that the
# trials 0..3 of a study all fall into bracket 0 / all into bracket 1 / into different brackets. A
# wrong model only changes which situations are covered (reported in coverage), never the verdict.
def _model_bracket(name: str, number: int, mr: int, maxr: int, rf: int) -> int:
    n = math.floor(math.log(maxr / mr, rf)) + 1
    budgets = [math.ceil(n * rf ** (n - 1 - b) / (n - b)) for b in range(n)]
    x = binascii.crc32(f"{name}_{number}".encode()) % sum(budgets)
    for b in range(n):
        x -= budgets[b]
        if x < 0:
            return b
    return n - 1


@lru_cache(maxsize=None)
def hb_names(setting: tuple) -> tuple:
    want = {"all0": None, "all1": None, "mixed": None}
    for k in range(200000):
        name = f"c16hb{k}"
        bs = [_model_bracket(name, i, *setting) for i in range(4)]
        if want["all0"] is None and bs == [0, 0, 0, 0]:
            want["all0"] = name
        elif want["all1"] is None and bs == [1, 1, 1, 1]:
            want["all1"] = name
        elif want["mixed"] is None and sorted(bs) == [0, 0, 1, 1]:
            want["mixed"] = name
        if all(want.values()):
            break
    return tuple(v if v is not None else f"c16hb-{k}" for k, v in want.items())


def grid_hyperband() -> list[tuple]:
    return [("hyperband", mr, maxr, rf, name) for (mr, maxr, rf) in HB_SETTINGS for name in hb_names((mr, maxr, rf))]  # 6


# ------------------------------------------------------------------------------------------------
# enumeration blocks
# ------------------------------------------------------------------------------------------------
def blocks(tier: str) -> dict[str, dict]:
    K_SMALL = kinds(IV_SMALL)  # 15
    K_SMALL4 = kinds(IV_SMALL[:4])  # 12
    K_TINY = kinds(IV_TINY)  # 9
    K_MID = kinds(IV_MID)  # 336
    K_FULL = kinds(IV_FULL)  # 1875
    K_DRV = kinds(IV_TINY[:1] + IV_TINY[2:]) + [("C", IV_TINY[1])]  # 7, driven through should_prune
    H_FEW = [(), (("C", IV_SMALL[1]),), (("C", IV_SMALL[2]), ("R", IV_SMALL[1]))]
    B: dict[str, dict] = {}

    def add(name, fam, cfgs, hists, seqs, cost):
        B[name] = {"fam": fam, "cfgs": cfgs, "hists": hists, "seqs": seqs, "cost": cost, "dirs": DIRS}

    G_ALL, G_VAL = grid_percentile(), grid_percentile_values()
    quick = tier == "quick"
    # cost = measured CPU seconds per (direction, history, sequence) [stateful: per setting as well];
    # only used to cut the blocks into tasks of similar size
    # --- median / percentile ------------------------------------------------------------------
    add("pct-grid", "percentile", G_ALL, hist_upto(K_SMALL4, 2), SEQ_CONST if quick else SEQ_EXT, 0.007)
    add("pct-1other", "percentile", G_VAL, hist_upto(K_FULL, 1), SEQ_CONST2 if quick else SEQ_CONST, 0.0013)
    add("pct-mixedseq", "percentile", G_VAL, hist_upto(K_SMALL, 1), SEQ_EXT if quick else SEQ_FULL, 0.0014)
    if not quick:
        K5P = [K_TINY[0], K_TINY[1], K_TINY[5], K_TINY[6], K_TINY[2]]  # C full, C mixed, P gap, R full, C gap
        add("pct-grid-3others", "percentile", G_ALL, hist_upto(K5P, 3, exactly=True), SEQ_CONST, 0.007)
        K_PAIR = kinds(assignments([(), FULL4, (1, 3)], (0.0, 2.0, NAN)), "CR")  # 182
        pairs = [h for h in hist_upto(K_PAIR, 2, ordered=False, exactly=True) if any(st == "C" for st, _ in h)]
        add("pct-2others", "percentile", G_VAL, pairs, SEQ_CONST2, 0.0013)
    # --- threshold / nop ------------------------------------------------------------------------
    add("threshold", "threshold", grid_threshold(), H_FEW if quick else hist_upto(K_SMALL, 1), SEQ_FULL, 0.0011)
    add("nop", "nop", [("nop",)], hist_upto(K_SMALL, 1), SEQ_EXT if quick else SEQ_FULL, 0.0008)
    # --- patient --------------------------------------------------------------------------------
    add("patient", "patient", grid_patient(),
        H_FEW if quick else hist_upto(K_SMALL, 1), SEQ_FULL, 0.003)
    add("patient-out-of-order", "patient", grid_patient(), H_FEW, SEQ_PERM if not quick else SEQ_PERM[::3], 0.003)
    if not quick:
        add("patient-2others", "patient", grid_patient(), hist_upto(K_TINY, 2, exactly=True), SEQ_EXT, 0.003)
        add("patient-1other", "patient", grid_patient(), hist_upto(kinds(IV_MID, "CR"), 1), SEQ_EXT, 0.0025)
    # --- successive halving / hyperband (stateful: one study per setting, others driven) --------
    add("sha", "sha", grid_sha(), hist_upto(K_TINY, 2), SEQ_CONST if quick else SEQ_EXT, 0.0005)
    add("hyperband", "hyperband", grid_hyperband(), hist_upto(K_TINY, 2), SEQ_CONST if quick else SEQ_EXT, 0.0009)
    if not quick:
        K5 = K_DRV[:2] + K_DRV[3:5] + K_DRV[6:]
        add("sha-3others", "sha", grid_sha(), hist_upto(K5, 3, exactly=True), SEQ_CONST, 0.0006)
        add("hyperband-3others", "hyperband", grid_hyperband(), hist_upto(K5, 3, exactly=True), SEQ_CONST, 0.001)
        add("sha-1other", "sha", grid_sha(), hist_upto(K_MID, 1), SEQ_CONST, 0.0004)
        add("sha-undriven", "sha", grid_sha(), hist_upto(K_TINY, 2), SEQ_CONST, 0.0004)
        B["sha-undriven"]["undriven"] = True
    return B


_BLOCKS: dict[str, dict[str, dict]] = {}


def get_blocks(tier: str) -> dict[str, dict]:
    if tier not in _BLOCKS:
        _BLOCKS[tier] = blocks(tier)
    return _BLOCKS[tier]


# ------------------------------------------------------------------------------------------------
# facts (the oracle's view of a history; computed from the enumeration data, not from optuna)
# ------------------------------------------------------------------------------------------------
def better(a: float, b: float, direction: str) -> bool:
    return a < b if direction == "minimize" else a > b


class HistFacts:
    __slots__ = ("n_finished", "other_best", "cnt_at", "auto_min_resource")

    def __init__(self, hist: tuple, direction: str) -> None:
        self.n_finished = sum(1 for st, _ in hist if st in "CP")
        vals = [v for _, iv in hist for _, v in iv if not math.isnan(v)]
        self.other_best = None if not vals else (min(vals) if direction == "minimize" else max(vals))
        self.cnt_at = {s: sum(1 for _, iv in hist if any(s == s2 for s2, _ in iv)) for s in STEPS}
        ls = [max(s for s, _ in iv) for st, iv in hist if st == "C" and iv]
        self.auto_min_resource = max(max(ls) // 100, 1) if ls else None


@lru_cache(maxsize=None)
def is_check_step(step: int, prev_steps: tuple, n_warmup: int, interval: int) -> bool:
    if step < n_warmup:
        return False
    c = n_warmup + ((step - n_warmup) // interval) * interval
    return not any(c <= s < step for s in prev_steps)


def best_of(vals: tuple, direction: str) -> float | None:
    xs = [v for v in vals if not math.isnan(v)]
    if not xs:
        return None
    return min(xs) if direction == "minimize" else max(xs)


def protections(cfg: tuple, direction: str, hf: HistFacts, steps: tuple, vals: tuple, extra: dict) -> list[str]:
    """Clauses that forbid pruning after the reports (steps, vals) of the current trial."""
    k = cfg[0]
    if not steps:
        return ["pruned-before-any-report"]
    step, prev = steps[-1], steps[:-1]
    has_nan = any(math.isnan(v) for v in vals)
    worst = None if has_nan else (max(vals) if direction == "minimize" else min(vals))
    dominant = (not has_nan) and (hf.other_best is None or better(worst, hf.other_best, direction))
    out: list[str] = []
    if k in ("median", "percentile"):
        _, _, ns, nw, iv, nm = cfg
        if step < nw:
            out.append("pruned-during-warmup")
        if hf.n_finished < ns:
            out.append("pruned-before-startup-trials-finished")
        if step >= nw and not is_check_step(step, prev, nw, iv):
            out.append("pruned-between-interval-checks")
        if 1 + hf.cnt_at[step] < nm and best_of(vals, direction) is not None:
            out.append("pruned-below-n-min-trials")
        if dominant:
            out.append("dominant-trial-pruned")
    elif k == "sha":
        _, mr, rf, mesr = cfg
        eff = hf.auto_min_resource if mr == "auto" else mr
        if eff is None:
            out.append("pruned-before-auto-min-resource-determined")
        elif step < eff * rf ** mesr:
            out.append("pruned-before-first-rung")
        if dominant:
            out.append("dominant-trial-pruned")
    elif k == "hyperband":
        _, mr, maxr, rf, _name = cfg
        if step < mr:
            out.append("pruned-before-min-resource")
        b = extra.get("bracket")
        if b is not None and step < mr * rf ** b:
            out.append("pruned-before-first-rung-of-bracket")
        if dominant:
            out.append("dominant-trial-pruned")
    elif k == "patient":
        _, w, p, md = cfg
        # the patience window is counted in STEPS, whatever the order the steps were reported in
        vals = tuple(v for _, v in sorted(zip(steps, vals)))
        if len(vals) < p + 2:
            out.append("pruned-within-patience-window")
        else:
            bb, ba = best_of(vals[: len(vals) - (p + 1)], direction), best_of(vals[len(vals) - (p + 1):], direction)
            if bb is not None and ba is not None and better(ba, bb, direction) and abs(ba - bb) >= md:
                out.append("pruned-while-improving-within-patience")
        if w == "median" and dominant:
            out.append("dominant-trial-pruned")
    elif k == "nop":
        out.append("nop-pruned")
    return out


def threshold_expected(cfg: tuple, steps: tuple, vals: tuple) -> bool:
    _, lo, up, nw, iv = cfg
    if not steps:
        return False
    if not is_check_step(steps[-1], steps[:-1], nw, iv):
        return False
    v = vals[-1]
    return math.isnan(v) or (lo is not None and v < lo) or (up is not None and v > up)


# ------------------------------------------------------------------------------------------------
# running histories on real studies
# ------------------------------------------------------------------------------------------------
def build_study(direction: str, hist: tuple, pruner: Any, name: str, driven: bool, part: Part | None):
    study = optuna.create_study(study_name=name, direction=direction, pruner=pruner,
                                storage=optuna.storages.InMemoryStorage(),
                                sampler=optuna.samplers.RandomSampler(seed=0))
    nrep = 0
    for st, iv in hist:
        if driven or st == "R":
            t = study.ask()
            for s, v in iv:
                t.report(v, s)
                nrep += 1
                if driven:
                    t.should_prune()  # the answer is ignored: histories are arbitrary
            if st == "C":
                study.tell(t, 1.0)
            elif st == "P":
                study.tell(t, state=TrialState.PRUNED)
        else:
            study.add_trial(create_trial(state=STATES[st], value=1.0 if st == "C" else None,
                                         intermediate_values=dict(iv)))
    cur = study.ask()
    if part is not None:
        part.add("transitions", nrep)
        part.add("traces_validated_against_impl")
    return study, cur


def replay_dict(cfg, direction, hist, seq, i, clause, expected, observed, driven, name) -> dict:
    return {
        "clause": clause, "config": cfg_dict(cfg), "direction": direction, "study_name": name,
        "others": [[st, [list(p) for p in iv]] for st, iv in hist],
        "others_created_via": "ask+report+should_prune(+tell)" if driven else "add_trial(create_trial) / ask+report for RUNNING",
        "sequence": [list(p) for p in seq],
        "asked_after_report_index": i, "step": (seq[i][0] if i >= 0 else None),
        "expected": expected, "observed": observed, "cfg_tuple": list(cfg),
    }


REF_MEDIAN = None


def judge(part: Part, fam: str, cfg: tuple, direction: str, hf: HistFacts, hist: tuple, seq: tuple, i: int,
          ans: Any, extra: dict, driven: bool, name: str, study=None, frozen=None, count: bool = False) -> None:
    """Compare one answer (after report index i, -1 = before any report) with the contract."""
    if count:
        part.add("evaluations")
        part.add(f"evaluations_{fam}")
    steps = tuple(s for s, _ in seq[: i + 1])
    vals = tuple(v for _, v in seq[: i + 1])
    if isinstance(ans, tuple):  # ("EXC", text)
        part.violation(f"{cfg[0]}|raised-{ans[1].split(':')[0]}|{direction}",
                       replay_dict(cfg, direction, hist, seq, i, "exception", "a bool", ans[1], driven, name))
        return
    if fam == "threshold":
        exp = threshold_expected(cfg, steps, vals)
        if count:
            part.add("protected_evaluations")
        if ans is not exp:
            part.violation(f"threshold|prunes-iff-checked-value-nan-or-out-of-bounds|expected-{exp}",
                           replay_dict(cfg, direction, hist, seq, i, "iff", exp, ans, driven, name))
        if ans:
            part.add("pruned_answers")
        return
    prot = protections(cfg, direction, hf, steps, vals, extra)
    if prot and count:
        part.add("protected_evaluations")
    if not ans:
        return
    part.add("pruned_answers")
    for clause in prot:
        part.violation(f"{cfg[0]}|{clause}|{direction}",
                       replay_dict(cfg, direction, hist, seq, i, clause, False, True, driven, name))
    if fam == "percentile" and not prot and steps and 1 + hf.cnt_at[steps[-1]] < cfg[5]:
        part.add("obs_all_nan_trial_pruned_below_n_min_trials")
    if fam == "patient" and cfg[1] == "median" and study is not None:
        global REF_MEDIAN
        if REF_MEDIAN is None:
            REF_MEDIAN = optuna.pruners.MedianPruner(n_startup_trials=0, n_warmup_steps=0)
        if not REF_MEDIAN.prune(study, frozen):
            part.violation(f"patient|pruned-although-wrapped-pruner-does-not|{direction}",
                           replay_dict(cfg, direction, hist, seq, i, "wrapped pruner answers False", False, True,
                                       driven, name))


def exec_stateless(part: Part | None, direction: str, hist: tuple, seq: tuple, pruners: list, rot: int):
    """Run one (history, sequence) on a real study and ask every (stateless) pruner of the chunk after
    every report: pruner.prune(study, frozen trial) for all of them, and trial.should_prune() (the user
    path) for one rotating pruner, which must agree. Returns answers[i+1][ci], frozen trials, study."""
    study, cur = build_study(direction, hist, pruners[0], "c16", False, part)
    n = len(hist)
    answers, frozens, mismatch = [], [], []
    for i in range(-1, len(seq)):
        if i >= 0:
            cur.report(seq[i][1], seq[i][0])
            if part is not None:
                part.add("transitions")
        frozen = study.get_trials(deepcopy=True)[n]
        row = []
        for p in pruners:
            try:
                row.append(bool(p.prune(study, frozen)))
            except Exception as e:  # noqa: BLE001
                row.append(("EXC", f"{type(e).__name__}: {str(e)[:80]}"))
        k = (rot + i + 1) % len(pruners)
        study.pruner = pruners[k]
        try:
            a2 = bool(cur.should_prune())
        except Exception as e:  # noqa: BLE001
            a2 = ("EXC", f"{type(e).__name__}: {str(e)[:80]}")
        if part is not None:
            part.add("should_prune_calls")
        if a2 != row[k] and not (isinstance(a2, tuple) and isinstance(row[k], tuple)):
            mismatch.append((i, k, row[k], a2))
        answers.append(row)
        frozens.append(frozen)
    return answers, frozens, study, mismatch


def run_stateless(part: Part, blk: dict, cfgs: list, hists: list) -> None:
    fam = blk["fam"]
    pruners = [mk_pruner(c) for c in cfgs]
    none_idx = [ci for ci, c in enumerate(cfgs) if fam == "patient" and c[1] == "none"]
    ncfg = len(cfgs)
    base: dict = {}
    rot = n_eval = n_prot = n_pruned = 0
    wi_pairs = sorted({(c[3], c[4]) for c in cfgs}) if fam in ("percentile", "threshold") else []
    for direction in blk["dirs"]:
        for hist in hists:
            hf = HistFacts(hist, direction)
            nfin, obest = hf.n_finished, hf.other_best
            if blk.get("count_states", True):
                part.add("states", ncfg)
                part.add(f"states_{fam}", ncfg)
            for seq in blk["seqs"]:
                rot += 1
                answers, frozens, study, mismatch = exec_stateless(part, direction, hist, seq, pruners, rot)
                for (i, k, a1, a2) in mismatch:
                    part.violation(f"{cfgs[k][0]}|should_prune-differs-from-pruner.prune|{direction}",
                                   replay_dict(cfgs[k], direction, hist, seq, i, "Trial.should_prune == pruner.prune",
                                               a1, a2, False, "c16"))
                for j, row in enumerate(answers):
                    i = j - 1
                    n_eval += ncfg
                    # fast path: everything the contract does not forbid is accepted without further work;
                    # judge() (slow, complete) runs for every True answer, every exception and every
                    # threshold answer that differs from the IFF
                    if fam == "threshold":
                        n_prot += ncfg
                        if i < 0:
                            suspects = [ci for ci in range(ncfg) if row[ci] is not False]
                        else:
                            step, prev, v = seq[i][0], tuple(s for s, _ in seq[:i]), seq[i][1]
                            chk = {wi: is_check_step(step, prev, wi[0], wi[1]) for wi in wi_pairs}
                            vnan = math.isnan(v)
                            suspects = []
                            for ci in range(ncfg):
                                c = cfgs[ci]
                                exp = chk[(c[3], c[4])] and (vnan or (c[1] is not None and v < c[1])
                                                             or (c[2] is not None and v > c[2]))
                                if row[ci] is not exp:
                                    suspects.append(ci)
                                elif exp:
                                    n_pruned += 1
                        for ci in suspects:
                            judge(part, fam, cfgs[ci], direction, hf, hist, seq, i, row[ci], {}, False, "c16")
                        continue
                    if fam == "percentile" and i >= 0:  # count the protected evaluations cheaply
                        step, prev = seq[i][0], tuple(s for s, _ in seq[:i])
                        vals = [v for _, v in seq[: i + 1]]
                        has_nan = any(math.isnan(v) for v in vals)
                        has_num = any(not math.isnan(v) for v in vals)
                        dominant = (not has_nan) and (obest is None or better(
                            max(vals) if direction == "minimize" else min(vals), obest, direction))
                        if dominant:
                            n_prot += ncfg
                        else:
                            chk = {wi: is_check_step(step, prev, wi[0], wi[1]) for wi in wi_pairs}
                            cnt = 1 + hf.cnt_at[step]
                            for c in cfgs:
                                if nfin < c[2] or not chk[(c[3], c[4])] or (has_num and cnt < c[5]):
                                    n_prot += 1
                    else:
                        steps = tuple(s for s, _ in seq[: i + 1])
                        vals_t = tuple(v for _, v in seq[: i + 1])
                        for c in cfgs:
                            if protections(c, direction, hf, steps, vals_t, {}):
                                n_prot += 1
                    for ci in range(ncfg):
                        if row[ci] is not False:
                            judge(part, fam, cfgs[ci], direction, hf, hist, seq, i, row[ci], {}, False, "c16",
                                  study, frozens[j])
                if none_idx and hist:
                    key = (direction, seq)
                    if key not in base:
                        base[key] = exec_stateless(None, direction, (), seq, pruners, 0)[0]
                    for j, row in enumerate(answers):
                        for ci in none_idx:
                            n_eval += 1
                            if row[ci] != base[key][j][ci]:
                                part.violation(f"patient|wrapped-none-answer-depends-on-other-trials|{direction}",
                                               replay_dict(cfgs[ci], direction, hist, seq, j - 1,
                                                           "same answer as without other trials", base[key][j][ci],
                                                           row[ci], False, "c16"))
                if rot % 997 == 1:
                    part.sample({"family": fam, "direction": direction, "others": hist, "sequence": seq,
                                 "config": cfg_dict(cfgs[0]), "answers_of_first_config": [r[0] for r in answers]})
    part.add("evaluations", n_eval)
    part.add(f"evaluations_{fam}", n_eval)
    part.add("protected_evaluations", n_prot)
    part.add("pruned_answers", n_pruned)


def run_stateful(part: Part, blk: dict, cfgs: list, hists: list) -> None:
    fam = blk["fam"]
    driven = not blk.get("undriven", False)
    cnt = 0
    for cfg in cfgs:
        name = cfg[4] if fam == "hyperband" else "c16"
        for direction in blk["dirs"]:
            for hist in hists:
                hf = HistFacts(hist, direction)
                if blk.get("count_states", True):
                    part.add("states")
                    part.add(f"states_{fam}")
                n = len(hist)
                for seq in blk["seqs"]:
                    cnt += 1
                    answers = []
                    try:
                        study, cur = build_study(direction, hist, mk_pruner(cfg), name, driven, part)
                    except Exception as e:  # noqa: BLE001
                        judge(part, fam, cfg, direction, hf, hist, seq, -1, ("EXC", f"{type(e).__name__}: {str(e)[:80]}"),
                              {}, driven, name, count=True)
                        continue
                    for i in range(-1, len(seq)):
                        extra: dict = {}
                        try:
                            if i >= 0:
                                cur.report(seq[i][1], seq[i][0])
                                part.add("transitions")
                            ans: Any = bool(cur.should_prune())
                            part.add("should_prune_calls")
                            if fam == "hyperband" and i >= 0:
                                fts = study.get_trials(deepcopy=False)
                                bs = [study.pruner._get_bracket_id(study, ft) for ft in fts]
                                extra["bracket"] = bs[n]
                                if i == 0 and any(b == bs[n] for b in bs[:n]):
                                    part.add("hyperband_runs_with_a_competitor_in_the_same_bracket")
                        except Exception as e:  # noqa: BLE001
                            ans = ("EXC", f"{type(e).__name__}: {str(e)[:80]}")
                        answers.append(ans)
                        judge(part, fam, cfg, direction, hf, hist, seq, i, ans, extra, driven, name, count=True)
                        if isinstance(ans, tuple):
                            break
                    if cnt % 499 == 1:
                        part.sample({"family": fam, "direction": direction, "others": hist, "sequence": seq,
                                     "config": cfg_dict(cfg), "answers": answers})


# ------------------------------------------------------------------------------------------------
# Hyperband bracket is a function of (study name, trial number)
# ------------------------------------------------------------------------------------------------
def bracket_case(part: Part, setting: tuple, name: str) -> None:
    N = 6
    key = "hyperband|bracket-depends-on-more-than-name-and-number"

    def mk():
        return optuna.pruners.HyperbandPruner(min_resource=setting[0], max_resource=setting[1],
                                              reduction_factor=setting[2])

    def ids(pruner, study):
        return [pruner._get_bracket_id(study, ft) for ft in study.get_trials(deepcopy=False)[:N]]

    rep = {"config": {"pruner": "hyperband", "min_resource": setting[0], "max_resource": setting[1],
                      "reduction_factor": setting[2]}, "study_name": name, "trial_numbers": list(range(N))}
    try:
        pa = mk()
        sa = optuna.create_study(study_name=name, direction="minimize", pruner=pa,
                                 storage=optuna.storages.InMemoryStorage(), sampler=optuna.samplers.RandomSampler(seed=0))
        ta = [sa.ask() for _ in range(N)]
        ta[0].report(1.0, 0)
        ta[0].should_prune()  # initialises the brackets (max_resource is an int)
        part.add("transitions")
        part.add("traces_validated_against_impl")
        ref = ids(pa, sa)
        part.add("states")
        part.add("states_bracket")
        if len(set(ref)) > 1:
            part.add("bracket_cases_with_several_brackets")
        variants = []
        # unrelated trials added, trials finished, more reports: same pruner object
        sa.add_trial(create_trial(state=TrialState.COMPLETE, value=0.0, intermediate_values={0: 0.0, 3: NAN}))
        extra = sa.ask()
        extra.report(2.0, 1)
        extra.should_prune()
        sa.tell(ta[1], 1.0)
        sa.tell(ta[2], state=TrialState.PRUNED)
        ta[3].report(NAN, 2)
        ta[3].should_prune()
        variants.append(("same pruner after unrelated trials were added and trials finished", ids(pa, sa)))
        p2 = mk()
        p2._try_initialization(sa)
        variants.append(("fresh pruner with the same parameters on the same study", ids(p2, sa)))
        # same study name in another storage whose trial ids are shifted by a decoy study, other direction
        for off in (1, 2, 5):
            st = optuna.storages.InMemoryStorage()
            decoy = optuna.create_study(study_name="decoy", storage=st)
            for _ in range(off):
                decoy.ask()
            p3 = mk()
            sb = optuna.create_study(study_name=name, direction="maximize", pruner=p3, storage=st,
                                     sampler=optuna.samplers.RandomSampler(seed=0))
            tb = [sb.ask() for _ in range(N)]
            tb[N - 1].report(2.0, 3)
            tb[N - 1].should_prune()
            part.add("transitions")
            part.add("traces_validated_against_impl")
            variants.append((f"same-named study in another storage (trial ids shifted by {off})", ids(p3, sb)))
        # one pruner object serving a second, differently named study (e.g. a pruner built once and
        # passed to several create_study calls): the second study's brackets must be its own
        other = "other-" + name
        so = optuna.create_study(study_name=other, direction="minimize", pruner=pa, storage=optuna.storages.InMemoryStorage(),
                                 sampler=optuna.samplers.RandomSampler(seed=0))
        to = [so.ask() for _ in range(N)]
        to[0].report(1.0, 0)
        to[0].should_prune()
        got_shared = ids(pa, so)
        pf = mk()
        sf = optuna.create_study(study_name=other, direction="minimize", pruner=pf, storage=optuna.storages.InMemoryStorage(),
                                 sampler=optuna.samplers.RandomSampler(seed=0))
        tf = [sf.ask() for _ in range(N)]
        tf[0].report(1.0, 0)
        tf[0].should_prune()
        want_other = ids(pf, sf)
        part.add("transitions", 2)
        part.add("traces_validated_against_impl", 2)
        part.add("evaluations", N)
        part.add("evaluations_bracket", N)
        if got_shared != want_other:
            part.violation(key, dict(rep, variant="pruner object shared with a differently named study: that study's brackets",
                                     study_name=other, expected=want_other, observed=got_shared))
        variants.append(("same pruner after it also served a differently named study", ids(pa, sa)))
        for what, got in variants:
            part.add("evaluations", N)
            part.add("evaluations_bracket", N)
            part.add("protected_evaluations", N)
            if got != ref:
                part.violation(key, dict(rep, variant=what, expected=ref, observed=got))
    except Exception as e:  # noqa: BLE001
        part.violation("hyperband|bracket-raised-" + type(e).__name__, dict(rep, observed=f"{type(e).__name__}: {str(e)[:120]}"))


# ------------------------------------------------------------------------------------------------
# tasks
# ------------------------------------------------------------------------------------------------
def task_fn(task: tuple) -> dict:
    backends.setup_determinism()
    part = Part()
    if task[0] == "bracket":
        _, setting, names = task
        for name in names:
            bracket_case(part, setting, name)
        part.sample({"family": "hyperband-bracket", "setting": setting, "names": names[:3]}, cap=1)
        return part.out()
    _, tier, bname, c_lo, c_hi, h_lo, h_hi, s_lo, s_hi = task
    blk = dict(get_blocks(tier)[bname])
    cfgs, hists = blk["cfgs"][c_lo:c_hi], blk["hists"][h_lo:h_hi]
    blk["seqs"] = blk["seqs"][s_lo:s_hi]
    blk["count_states"] = s_lo == 0  # a (setting, history) pair split over several sequence chunks counts once
    if blk["fam"] in ("sha", "hyperband"):
        run_stateful(part, blk, cfgs, hists)
    else:
        run_stateless(part, blk, cfgs, hists)
    return part.out()


def make_tasks(tier: str) -> tuple[list, dict]:
    B = get_blocks(tier)
    target = 2.5 if tier == "quick" else 25.0
    tasks: list = []
    summary: dict = {}
    for bname, blk in B.items():
        nh, ns, nc = len(blk["hists"]), len(blk["seqs"]), len(blk["cfgs"])
        stateful = blk["fam"] in ("sha", "hyperband")
        per_seq = len(blk["dirs"]) * blk["cost"]  # stateful: per (setting, history, sequence)
        s_chunk = ns if ns * per_seq <= target else max(1, int(target / per_seq))
        h_chunk = max(1, int(target / (min(ns, s_chunk) * per_seq)))
        n0 = len(tasks)
        c_ranges = [(ci, ci + 1) for ci in range(nc)] if stateful else [(0, nc)]
        for (c_lo, c_hi) in c_ranges:
            for h_lo in range(0, nh, h_chunk):
                for s_lo in range(0, ns, s_chunk):
                    tasks.append(("block", tier, bname, c_lo, c_hi, h_lo, min(nh, h_lo + h_chunk),
                                  s_lo, min(ns, s_lo + s_chunk)))
        summary[bname] = {"family": blk["fam"], "settings": nc, "directions": 2, "histories": nh, "sequences": ns,
                          "tasks": len(tasks) - n0}
    nn = 16 if tier == "quick" else 160
    names = [f"c16-{k}" for k in range(nn)] + list(hb_names(HB_SETTINGS[0])) + list(hb_names(HB_SETTINGS[1]))
    for setting in HB_SETTINGS:
        for lo in range(0, len(names), 40):
            tasks.append(("bracket", setting, names[lo:lo + 40]))
    summary["bracket"] = {"family": "hyperband-bracket", "settings": len(HB_SETTINGS), "study_names": len(names),
                          "trial_numbers": 6, "variants": 5}
    return tasks, summary


# ------------------------------------------------------------------------------------------------
# replay of one recorded case
# ------------------------------------------------------------------------------------------------
def _unjson(x: Any) -> Any:
    if x == "nan":
        return NAN
    if isinstance(x, list):
        return tuple(_unjson(v) for v in x)
    return x


def replay_case(path: str) -> int:
    rep = json.load(open(path))
    if "cfg_tuple" not in rep:
        part = Part()
        c = rep["config"]
        bracket_case(part, (c["min_resource"], c["max_resource"], c["reduction_factor"]), rep["study_name"])
        print(json.dumps(part.out()["viol"], indent=1))
        return 1 if part.viol else 0
    cfg = tuple(_unjson(rep["cfg_tuple"]))
    hist = tuple((st, tuple((int(s), float(v)) for s, v in _unjson(iv))) for st, iv in rep["others"])
    seq = tuple((int(s), float(v)) for s, v in _unjson(rep["sequence"]))
    direction, name = rep["direction"], rep.get("study_name", "c16")
    driven = rep["others_created_via"].startswith("ask+report+should_prune")
    fam = {"median": "percentile"}.get(cfg[0], cfg[0])
    part = Part()
    blk = {"fam": fam, "dirs": (direction,), "seqs": [seq], "undriven": not driven}
    if fam in ("sha", "hyperband"):
        run_stateful(part, blk, [cfg], [hist])
    else:
        run_stateless(part, blk, [cfg], [hist])
    out = part.out()
    print(json.dumps({"samples": out["samples"], "violations": out["viol"]}, indent=1))
    return 1 if out["viol"] else 0


# ------------------------------------------------------------------------------------------------
def run(tier: str, replay: str | None = None) -> int:
    backends.setup_determinism()
    if replay is not None:
        return replay_case(replay)
    ctx = Ctx(PID, tier, "model_checking")
    tasks, summary = make_tasks(tier)
    pmap(ctx, task_fn, tasks)
    if ctx.cov.get("obs_all_nan_trial_pruned_below_n_min_trials"):
        ctx.notes.append("observation (not a clause of C16): median/percentile prune a trial whose reported values are "
                         "all NaN even when fewer than n_min_trials values exist at the step (NaN test precedes the "
                         "n_min_trials test in _percentile.py)")
    ctx.assumptions += [
        "in-memory storage, RandomSampler(seed=0), single objective; other trials finish reporting before the current trial starts",
        "finished = COMPLETE or PRUNED (docstring 'trials finish'); FAIL/WAITING trials are not enumerated",
        "steps of the current trial are reported in increasing order (last_step is the latest report)",
        "median/percentile/threshold/patient/nop are asked through pruner.prune(study, frozen trial) for every "
        "setting of the grid on one real study per (history, sequence); Trial.should_prune() is called for one rotating "
        "setting per report and must agree; SHA/Hyperband (they write rung attributes) get one study per setting and are "
        "asked through Trial.should_prune() only",
        "for SHA/Hyperband the other trials are driven through ask/report/should_prune/tell so that rung attributes "
        "exist (answers ignored: histories are arbitrary); thorough also runs SHA with add_trial-created others",
        "a NaN reported by another trial is not a value the current trial has to beat (dominance ignores it)",
        "safety oracle: never demands pruning, except ThresholdPruner's IFF",
        "Hyperband's per-bracket first rung uses the bracket the pruner itself reports; the bracket function is "
        "checked separately for depending on (study_name, number) only",
    ]
    return ctx.finish(
        exhaustive=True,
        rule="union of exhaustive product blocks (settings x directions x histories x report sequences), every block "
             "fully enumerated; lattices: current steps = all subsets of {0,1,2,3}, values {-1,0,1,2,3,nan} (FULL) or "
             "{-1,3,nan} (EXT) or constant; others: <=1 over all 1875 (state, step-subset, {0,1,2,nan}-assignment) kinds, "
             "<=2 (thorough: 3) over sub-lattices with gaps and NaN",
        extra={"blocks": summary},
    )


if __name__ == "__main__":
    main_wrapper(run)
