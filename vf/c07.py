"""C07 - the journal file is an intact, totally ordered log under concurrent writers.

procx over SimFS at the BaseJournalBackend level: 2-3 JournalFileBackend objects (own lock
objects) run 1-2 calls each as baton-scheduled "processes"; every simulated syscall is a
scheduling point; the designated write is delivered in chunks cut at enumerated byte offsets; the
reader's buffer size is an environment parameter. No crash here (C05 does crashes).
"""
from __future__ import annotations

import json
import os
from typing import Any

from . import backends, simfs
from .core import Ctx, InternalError, Part, main_wrapper, pmap
from .explore import Chooser, explore

PID = "C07"
PATH = "/sim/journal.log"


def rec(p: int, k: int, j: int = 0) -> dict:
    return {"op_code": 99, "worker_id": f"p{p}", "k": k, "j": j, "pad": "x" * (3 + 2 * p)}


def make_backend(lock_kind: str) -> Any:
    from optuna.storages.journal import JournalFileBackend, JournalFileOpenLock, JournalFileSymlinkLock

    lock = (JournalFileSymlinkLock if lock_kind == "sym" else JournalFileOpenLock)(PATH)
    return JournalFileBackend(PATH, lock_obj=lock)


# programs: list of calls; call = ("append", n_records) | ("read", k)
PROGRAMS = {
    "A1": [("append", 1)],
    "A2": [("append", 2)],
    "R0": [("read", 0)],
    "R2": [("read", 2)],
    "R3": [("read", 3)],
    "A1R0": [("append", 1), ("read", 0)],
    "A1R2": [("append", 1), ("read", 2)],
    "R2A1": [("read", 2), ("append", 1)],
    "A1A1": [("append", 1), ("append", 1)],
    "R2R2": [("read", 2), ("read", 2)],
    "R0R3": [("read", 0), ("read", 3)],
}


def scenarios(tier: str) -> list[tuple]:
    """(lock, bufsize, warm cache?, program names, split spec, bound)"""
    out = []
    one = ["A1", "A2", "R0", "R2", "R3"]
    two = ["A1R0", "A1R2", "R2A1", "A1A1", "R2R2", "R0R3"]
    locks = ["sym", "open"]
    for lock in locks:
        combos = [(8192, True), (8192, False), (16, True)] + ([(16, False)] if tier == "thorough" else [])
        for buf, warm in combos:
            # 2 processes x 1 call: all interleavings (no bound)
            for i, a in enumerate(one):
                for b in one[i:]:
                    if a[0] == "R" and b[0] == "R":
                        continue  # readers alone do not conflict
                    if buf == 16 and tier == "quick" and "R" not in (a[0], b[0]):
                        continue  # the small buffer only matters to readers
                    for split in split_specs(tier, (a, b)):
                        out.append((lock, buf, warm, (a, b), split, 99))
                    if buf == 8192 and warm:
                        # the journal was idle for longer than the lock's grace period before the
                        # workers arrive (time since the last append is not the age of a lock)
                        for split in split_specs("quick", (a, b))[:2]:
                            out.append((lock, buf, warm, (a, b), split, 99, 100.0))
            if tier == "thorough" or (buf == 8192 and warm):
                # 2 x 2 calls and 3 x 1: preemption bounded
                b2 = 1 if tier == "quick" else 3
                pairs2 = [("A1R0", "A1R2"), ("A1A1", "R2R2"), ("R2A1", "A1R0"), ("A1A1", "A1R2"),
                          ("R0R3", "A2"), ("R2R2", "A2"), ("A1R2", "R0R3")]
                for a, b in pairs2[:4 if tier == "quick" else None]:
                    if tier == "quick":
                        for split in split_specs(tier, (a, b))[:2]:
                            out.append((lock, buf, warm, (a, b), split, b2))
                        continue
                    # thorough: bound 3 with the boundary cut set, bound 2 with every byte offset
                    # (every byte offset only with a warm cache: the cold variants differ in the
                    # first read only, which the boundary cuts cover)
                    coarse = split_specs("quick", (a, b))
                    for split in coarse:
                        out.append((lock, buf, warm, (a, b), split, 3))
                    if warm:
                        for split in split_specs(tier, (a, b)):
                            if split not in coarse:
                                out.append((lock, buf, warm, (a, b), split, 2))
                tris = [("A1", "A1", "R0"), ("A1", "A2", "R2"), ("A1", "A1", "A1"), ("A2", "R2", "R3")]
                for tri in tris[:2 if tier == "quick" else None]:
                    out.append((lock, buf, warm, tri, None, 1 if tier == "quick" else 2))
    return out


def split_specs(tier: str, names: tuple) -> list:
    """Which write is cut where: None (whole writes) or (proc, write ordinal, cut offsets).
    The first appending process's first write is the designated one."""
    specs: list = [None]
    for p, n in enumerate(names):
        calls = PROGRAMS[n]
        if calls[0][0] == "append" or (len(calls) > 1 and calls[1][0] == "append"):
            nrec = [c for c in calls if c[0] == "append"][0][1]
            data = payload(p, 0, nrec)
            L = len(data)
            first_nl = data.index(b"\n") + 1
            if tier == "thorough":
                cuts = list(range(1, L))
            else:
                cuts = sorted({1, first_nl - 1, first_nl, L - 1, L // 2} - {0, L})
            for c in cuts:
                specs.append((p, 0, (c,)))
            if nrec == 2:
                specs.append((p, 0, (first_nl - 1, first_nl + 1)))
            break
    return specs


def payload(p: int, k: int, nrec: int) -> bytes:
    logs = [rec(p, k, j) for j in range(nrec)]
    return ("\n".join(json.dumps(l, separators=(",", ":")) for l in logs) + "\n").encode()


class Run:
    def __init__(self, task: tuple) -> None:
        self.lock, self.buf, self.warm, self.names, self.split, self.bound = task[:6]
        self.idle = task[6] if len(task) > 6 else 0.0  # seconds the journal lay idle before the run

    def execute(self, ch: Chooser) -> dict:
        fs = simfs.SimFS(bufsize=self.buf)
        simfs.activate(fs)
        try:
            # setup (unscheduled): file with 2 records, one backend per process
            b0 = make_backend(self.lock)
            b0.append_logs([rec(9, 0), rec(9, 1)])
            procs = []
            for p in range(len(self.names)):
                b = make_backend(self.lock)
                if self.warm:
                    b.read_logs(0)
                procs.append(b)
            if self.split is not None:
                sp, wo, cuts = self.split
                fs.split_plan = {sp: {wo: list(cuts)}}
            fs.write_ordinal = {}
            fs.proc_syscalls = {}
            fs.log = []
            fs.clock += self.idle  # the file's mtime now lies `idle` seconds in the past
            sched = simfs.ProcSched(ch, fs)
            holders: set = set()
            ghost = {"max_holders": 0, "double": None}
            hist: list = []
            appended_done: list = []  # (step, records) of appends that have returned

            def wrap_lock(p: int, lock: Any) -> None:
                acq, rel = lock.acquire, lock.release

                def acquire() -> bool:
                    r = acq()
                    holders.add(p)
                    if len(holders) > 1 and ghost["double"] is None:
                        ghost["double"] = sorted(holders)
                    return r

                def release() -> None:
                    holders.discard(p)
                    rel()

                lock.acquire, lock.release = acquire, release

            for p, b in enumerate(procs):
                wrap_lock(p, b._lock)

            def mk(p: int):
                def body() -> None:
                    k = 0
                    for ci, call in enumerate(PROGRAMS[self.names[p]]):
                        fs.note(p, ("op", ci))
                        sched.point("op")
                        inv = sched.now()
                        try:
                            if call[0] == "append":
                                logs = [rec(p, k, j) for j in range(call[1])]
                                k += 1
                                procs[p].append_logs(logs)
                                res: Any = ("ok", None)
                                appended_done.append((sched.now(), logs))
                            else:
                                n_before = sum(len(l) for s, l in appended_done)
                                fs.note(p, ("n_before", n_before))  # driver-local ghost: part of p's state
                                res = ("ok", procs[p].read_logs(call[1]), n_before)
                        except simfs.Crashed:
                            raise
                        except InternalError:
                            raise
                        except Exception as e:
                            res = ("err", f"{type(e).__name__}: {e}")
                        hist.append((p, call, inv, sched.now(), res))
                return body

            sched.ghost_key = lambda: (tuple(sorted(holders)), ghost["double"] is not None,
                                       sum(len(l) for _, l in appended_done), len(hist))
            threads = sched.run([mk(p) for p in range(len(procs))])
            errs = [t.error for t in threads if t.error]
            # final checks, unscheduled
            fs.sched = None
            fs.split_plan = {}
            fs.bufsize = 8192
            data = bytes(fs.files[PATH].data)
            fresh = make_backend(self.lock)
            total = None
            fresh_err = None
            try:
                total = fresh.read_logs(0)
            except Exception as e:
                fresh_err = f"{type(e).__name__}: {e}"
            cache_diffs = []
            if total is not None:
                for p, b in enumerate(procs):
                    for k in range(len(total) + 1):
                        try:
                            got = b.read_logs(k)
                        except Exception as e:
                            got = f"{type(e).__name__}: {e}"
                        if got != total[k:]:
                            cache_diffs.append((p, k, got if isinstance(got, str) else len(got), len(total) - k))
                            break
            return {"hist": hist, "data": data, "total": total, "fresh_err": fresh_err, "errors": errs,
                    "double": ghost["double"], "deadlock": sched.deadlock, "livelock": sched.livelock,
                    "cache_diffs": cache_diffs, "steps": sched.step, "lock_left": [k for k in fs.files if k != PATH],
                    "appended": [l for _, l in appended_done]}
        finally:
            simfs.activate(None)

    def check(self, ex: dict) -> list[tuple[str, str]]:
        """Returns list of (clause, detail) violated."""
        bad = []
        tag = f"{self.lock}"
        if ex["deadlock"] or ex["livelock"]:
            bad.append(("deadlock" if not ex["livelock"] else "livelock", ""))
            return bad
        if ex["double"]:
            bad.append(("two-lock-holders", str(ex["double"])))
        if ex["fresh_err"]:
            bad.append(("file-unreadable", ex["fresh_err"]))
            return bad
        data = ex["data"]
        if data and not data.endswith(b"\n"):
            bad.append(("file-ends-mid-record", ""))
        total = ex["total"]
        # the file is a merge of the setup records and the appended batches, each batch contiguous
        want = [rec(9, 0), rec(9, 1)]
        batches = ex["appended"]
        flat_expected = want + [r for b in batches for r in b]
        key = lambda r: json.dumps(r, sort_keys=True)  # noqa: E731
        if sorted(map(key, total)) != sorted(map(key, flat_expected)):
            bad.append(("records-lost-or-duplicated", f"{len(total)} in file, {len(flat_expected)} appended"))
        else:
            if total[:2] != want:
                bad.append(("reordered", "setup records moved"))
            for b in batches:
                i = total.index(b[0])
                if total[i:i + len(b)] != b:
                    bad.append(("batch-interleaved", ""))
        for p, call, inv, resp, res in ex["hist"]:
            if res[0] == "err":
                bad.append((f"{call[0]}-raised", res[1].split(":")[0]))
                continue
            if call[0] == "read":
                got, n_before = res[1], res[2]
                k = call[1]
                if got != total[k:k + len(got)]:
                    bad.append(("read-not-a-contiguous-slice", f"k={k}"))
                elif k + len(got) < min(len(total), 2 + n_before) and k <= 2 + n_before:
                    bad.append(("read-misses-finished-append", f"k={k} got {len(got)} finished-before {n_before}"))
        if ex["cache_diffs"]:
            bad.append(("cached-offsets-disagree-with-fresh-reader", str(ex["cache_diffs"][0])))
        if ex["lock_left"]:
            bad.append(("lock-file-left-behind", str(ex["lock_left"])))
        return bad


def task_fn(task: tuple) -> dict:
    backends.setup_determinism()
    simfs.install()
    part = Part()
    run = Run(task)
    outcomes: set = set()
    first = {"done": False}

    def on_exec(ch: Chooser, ex: dict) -> None:
        part.add("executions")
        part.add("transitions", ex["steps"])
        if ex["errors"]:
            raise InternalError(f"driver error {ex['errors']} in {task}")
        if not first["done"]:
            ex2 = run.execute(Chooser(ch.choices))
            if (ex2["hist"], ex2["data"]) != (ex["hist"], ex["data"]):
                raise InternalError(f"replaying one schedule twice differed: {task}")
            first["done"] = True
        outcomes.add((ex["data"], tuple((p, str(r)) for p, c, i, rp, r in ex["hist"])))
        for clause, detail in run.check(ex):
            key = f"procx-simfs|lock={run.lock}|{clause}|{'+'.join(sorted(run.names))}"
            part.violation(key, {"engine": "procx/SimFS", "task": task, "schedule": ch.choices, "clause": clause,
                                 "detail": detail, "history": ex["hist"], "file": ex["data"].decode(errors="replace")})

    st = explore(run.execute, run.bound, on_exec, max_execs=200000, cache_states=True)
    part.add("cached_states", st["cached_states"])
    part.add("pruned_executions", st["pruned"])
    if st["capped"]:
        part.add("caps_hit")
    part.add("scenarios")
    part.add("states", len(outcomes))
    part.setmax("max_points", st["max_points"])
    if run.split is not None and run.bound == 99:
        part.sample({"task": task, "executions": st["executions"], "distinct_outcomes": len(outcomes)}, cap=1)
    return part.out()


def conformance(part: Part) -> None:
    """SimFS vs the kernel: the same single-process backend call sequences on a real tmpfs
    directory (unpatched module) and on SimFS must give the same results and file bytes."""
    import tempfile

    import optuna.storages.journal._file as jf

    seqs = [
        [("append", 1), ("read", 0), ("append", 2), ("read", 1), ("read", 3), ("read", 0)],
        [("read", 0), ("append", 2), ("append", 1), ("read", 2), ("read", 5)],
        [("append", 1), ("append", 1), ("read", 1), ("read", 1), ("read", 0)],
        # a torn tail (raw partial record) is repaired by the next append (truncate through the handle)
        [("append", 1), ("tear",), ("read", 0), ("append", 1), ("read", 0)],
        # os.truncate by path: shrinking and extending (NUL padding)
        [("append", 2), ("ostrunc", -5), ("rawsize",), ("ostrunc", +3), ("rawsize",)],
    ]
    for lock in ("sym", "open"):
        for seq in seqs:
            results = []
            for mode in ("sim", "real"):
                if mode == "sim":
                    simfs.install()
                    fs = simfs.SimFS(bufsize=8192)
                    simfs.activate(fs)
                    path = PATH
                else:
                    simfs.uninstall()
                    d = tempfile.mkdtemp(dir=backends.root())
                    path = os.path.join(d, "j.log")
                lk = (jf.JournalFileSymlinkLock if lock == "sym" else jf.JournalFileOpenLock)(path)
                b = jf.JournalFileBackend(path, lock_obj=lk)
                out = []
                k = 0
                for call in seq:
                    if call[0] == "append":
                        try:
                            b.append_logs([rec(0, k, j) for j in range(call[1])])
                            out.append(None)
                        except Exception as e:
                            out.append(("raised", type(e).__name__))
                        k += 1
                    elif call[0] == "tear":
                        with getattr(jf, "open", open)(path, "ab") as fh:  # the module's own open: fake or real
                            fh.write(b'{"op_code": 4, "torn')
                        out.append(None)
                    elif call[0] == "ostrunc":
                        size = jf.os.stat(path).st_size
                        jf.os.truncate(path, size + call[1])
                        out.append(None)
                    elif call[0] == "rawsize":
                        out.append(jf.os.stat(path).st_size)
                    else:
                        try:
                            out.append(b.read_logs(call[1]))
                        except Exception as e:  # the same on both sides, or the model is wrong
                            out.append(("raised", type(e).__name__))
                if mode == "sim":
                    data = bytes(fs.files[path].data)
                    left = sorted(x for x in fs.files if x != path)
                    simfs.activate(None)
                else:
                    data = open(path, "rb").read()
                    left = sorted(x for x in os.listdir(os.path.dirname(path)) if x != "j.log")
                results.append((out, data, left))
            simfs.install()
            part.add("traces_validated_against_impl")
            if results[0] != results[1]:
                raise InternalError(f"SimFS disagrees with the real file system on {lock} {seq}")


def replay_case(raw: dict, part: Part) -> None:
    backends.setup_determinism()
    simfs.install()
    run = Run(tuple(raw["task"]))
    ex = run.execute(Chooser(list(raw["schedule"])))
    print("history:", ex["hist"])
    for clause, detail in run.check(ex):
        part.violation(clause, raw)


def run(tier: str, replay: str | None = None) -> int:
    backends.setup_determinism()
    ctx = Ctx(PID, tier, "model_checking")
    p = Part()
    conformance(p)
    ctx.merge(p.out())
    tasks = scenarios(tier)
    pmap(ctx, task_fn, tasks, chunksize=2)
    ctx.assumptions += [
        "scheduling points = simulated syscalls of optuna/storages/journal/_file.py (complete for process-level concurrency: processes share nothing but the file system)",
        "SimFS semantics validated against a real tmpfs directory on sequential call sequences (traces_validated_against_impl)",
        "a sleeping poller is blocked until another process mutates the file system; the clock jumps past the grace period only when nobody else can run (no live lock holder is ever expired)",
        "no crash in C07 (see C05)",
    ]
    backends.cleanup_root()
    return ctx.finish(
        exhaustive=not ctx.cov.get("caps_hit"),
        rule="all interleavings (2 procs x 1 call: unbounded; 2x2 and 3x1: preemption-bounded) x lock class x reader buffer {8192,16} x warm/cold offset cache x cut offsets of the designated write; states = distinct (file bytes, results) outcomes",
    )


if __name__ == "__main__":
    main_wrapper(run)
