"""C11 - distributions and parameter values round-trip through every encoding.

Bounded-exhaustive lattice check (level `exploration`): the FULL product of a lattice of
"ordinary" numbers (mantissas of <= 4 significant digits, decimal exponents in [-6, 6], typed the way
a human types them, i.e. the correctly rounded double of the decimal string) is enumerated - nothing
is sampled.  For every distribution the clauses of the property are evaluated:

  construct   the constructor keeps low/step/log and replaces `high` only as documented (largest
              low + k*step <= high in exact decimal arithmetic) - this pins down what a *valid*
              distribution is before anything is demanded of it
  json        json_to_distribution(distribution_to_json(d)) == d, same class, same attribute types,
              second round trip gives the identical JSON string; the abbreviated JSON form parses to
              the (new-class) equivalent
  repr        to_external_repr(to_internal_repr(v)) == v with the same type, for every contained v
  contains    d._contains(x) == roundtrip(d)._contains(x) on contained and non-contained probes
  compat      check_distribution_compatibility(d, p) has the same outcome when d and/or p are replaced
              by their JSON round trips (p over a fixed set of partners of every class, both orders)
  transform-roundtrip   untransform(transform(cfg)) == cfg for every flag combination {0,1}^3
  box         every lattice point of `_SearchSpaceTransform.bounds` (corners, midpoints, +-1 ulp inside
              neighbours, thirds/quarters, half-step tie points and their ulp neighbours) untransforms
              into the domain.  NOT evaluated for log-scaled distributions (Float log, Int log,
              LogUniformDistribution, IntLogUniformDistribution) when transform_log=False: the
              docstring of _SearchSpaceTransform makes transform_log=True a precondition for sampling
              from the transformed space, so those box points are outside the contract (skipped cases
              are counted as `box_skipped_log_without_transform_log`; the round-trip clause, which
              involves no sampling, is still evaluated for those flags)

Mutations of optuna this check must catch.  M1-M4 and M6-M9 were applied one at a time to a scratch
copy of optuna and the quick tier run against it: each produced NEW finding keys (listed), none of
which appears on the unmodified tree.
  M1 `_adjust_discrete_uniform_high` with float arithmetic instead of Decimal
       -> construct|Float step|-|high-adjust, json|Float step|-|not-equal / not-idempotent,
          contains|Float step|-|answer-changed (and the same for DiscreteUniformDistribution)
  M2 `step` dropped from the JSON of FloatDistribution (`_asdict` without "step")
       -> json|Float step|-|not-equal, json|Float*|-|attributes, contains|Float step|-|answer-changed
  M3 np.clip removed from the stepped-float branch of `_untransform_numerical_param`
       -> box|Float step|log=* step=* 01=*|outside-domain, transform-roundtrip|...|value-changed
  M4 np.floor instead of np.round in the stepped untransform
       -> float branch: transform-roundtrip|Float step|log=* step=* 01=*|value-changed;
          int branch: transform-roundtrip|Int step|log=* step=* 01=1|value-changed (integer division is
          exact, so only the 0_1 scaling exposes it)
  M5 NOT detectable, by design: dropping the half-step padding of `bounds` under transform_step.  The
       property says nothing about the size of the box, only that every point of it maps into the domain.
  M6 np.clip removed from the log-int branch -> box|Int log|log=1 step=1 01=*|outside-domain
  M7 the min(..., nextafter(high)) clip removed from the continuous float branch
       -> box|Float|log=* step=* 01=1|outside-domain
  M8 IntDistribution.to_external_repr rounding half up -> repr|Int*|-|value-changed
  M9 CategoricalDistribution.__eq__ comparing choices with plain `!=` -> json|Categorical nan|-|not-equal

Reading of the property where the text leaves room (all stated in `assumptions` of the evidence):
  * deprecated classes: in this tree json_to_distribution returns the *same deprecated class* (it
    does not convert), so equality is demanded literally; in addition the documented conversion
    `_convert_old_distribution_to_new_distribution` must give the new-class distribution with the
    same low/high/step/log.
  * NaN choices: CategoricalDistribution.__eq__ / to_internal_repr treat NaN as equal to NaN
    (`_categorical_choice_equal`), so NaN is included and equality is demanded in that NaN-aware
    sense (plain `==` cannot hold for NaN and is not demanded).  Choices that compare equal to an
    earlier choice (True/1/1.0, False/0/0.0) map to the first match - documented in a NOTE in
    to_internal_repr - so only `==`, not identity/type, is demanded for them.
  * stepped floats: the property quantifies over "contained values", but `_contains` accepts every
    float within 1e-8 steps of a grid point, so one representative per grid index k has to be chosen.
    Exact round trip is demanded of the float the library itself produces for index k,
    clip(k*step + low, low, high), and of the distribution's own `low` and `high`.  The decimal-typed
    value float(low + k*step) a user would write must come back within 4 ulp of max(|low|,|high|)
    and still be contained (binary arithmetic cannot give more: 0.1 + 2*0.1 != 0.3); how often it is
    not a fixed point is counted (`decimal_grid_values_changed_within_tolerance`).
  * continuous floats: `untransform` clips to nextafter(high, -inf) on purpose (half-open range), so
    v == high returns 1 ulp below high; accepted and counted (`high_clipped_1ulp`).
  * log floats: see tol_log / tol_log_01 - "a few ulps" cannot be a constant over [1e-6, 1e6] because
    exp(log(v)) is only good to about |ln v| ulps.

Findings on the unmodified tree (genuine, kept reported; three families of keys):
  A transform-roundtrip|Float step / DiscreteUniformDistribution|...|high-changed
      the distribution's own `high` is not a fixed point: FloatDistribution(0.0, 0.9, step=0.3),
      untransform(transform({"x": 0.9})) == 0.8999999999999999 (3*0.3 in binary; `high` is computed
      in Decimal, the grid in binary).  No sampler can return `high` for such a distribution.
  B ...(scale/step>=1e7): `_contains` tolerates 1e-8 on the grid index, float arithmetic resolves the
      index only to about scale/step * 1e-16: FloatDistribution(0.1, 70, step=1e-6)._contains(70.0)
      is False (its own `high`), values produced by untransform are rejected as well
      (optuna.trial.create_trial with that value raises ValueError).
    ...(high>15digits): FloatDistribution(9.999e-6, 9.999e6, step=1e-6) - the exact adjusted high
      has 16 significant digits, float(high) prints as another decimal, re-parsing the JSON adjusts
      it again and the round trip is not equal (thorough lattice only).
  C transform-roundtrip|Int log / IntLogUniformDistribution|log=0 step=* 01=1|value-changed: with
      transform_log=False the log-int branch of untransform is a bare int(x), and with transform_0_1
      the scaling error truncates (IntDistribution(2, 70, log=True): 7 -> 6).  (The same int(x) maps the
      corner low-0.5 of the transform_step box to low-1, IntDistribution(1, 1, log=True) -> 0, but that
      is sampling from the box without transform_log and therefore outside the contract: not
      evaluated, see `box` above.)
"""
from __future__ import annotations

import decimal
import itertools
import json
import math
import struct
import warnings
from fractions import Fraction
from typing import Any

import numpy as np

from .core import Ctx, Part, pmap, main_wrapper

PID = "C11"
NAN = float("nan")
FLAGS = [(tl, ts, z) for tl in (0, 1) for ts in (0, 1) for z in (0, 1)]

# ----------------------------------------------------------------------------- tolerances (ulps)
# Measured on the unmodified tree over the thorough lattice (max_* counters in the evidence) and
# bounded by the arithmetic the code performs - see `assumptions`.
TOL_01 = 2           # continuous floats with transform_0_1: ulps of max(|low|,|high|) (measured: 1)
TOL_DEC = 4          # decimal-typed grid values of stepped floats: ulps of max(|low|,|high|) (measured: 3)
MAX_DIGITS = 15      # stepped floats whose exact `high` needs more significant digits are keyed separately
HUGE_RATIO = 1e7     # stepped floats with max(|low|,|high|)/step >= 1e7 are keyed separately (see below)


def tol_log(v: float) -> int:
    """Log-scaled floats, transform_log=1: the code computes exp(log(v)).  log(v) carries a relative
    error of about one ulp, which exp amplifies by |ln v|: the round trip is good to about |ln v| ulps
    (measured on the lattice: <= 0.91*|ln v|, 8 ulps at 1e+-6).  "A few ulps" is therefore read as
    4 ulps where |ln v| <= 2 and 2 + |ln v| beyond (16 ulps at the ends of [1e-6, 1e6])."""
    return max(4, 2 + math.ceil(abs(math.log(v))))


def tol_log_01(v: float, low: float, high: float) -> int:
    """With transform_0_1 the log-space coordinate is additionally scaled into [0, 1] and back; one
    ulp of max(|ln low|, |ln high|) in log space is up to 2*max(...) ulps of v."""
    return tol_log(v) + 2 * math.ceil(max(abs(math.log(low)), abs(math.log(high)), 1.0))


def _quiet() -> None:
    warnings.simplefilter("ignore")


def ordf(x: float) -> int:
    i = struct.unpack("<q", struct.pack("<d", float(x)))[0]
    return i if i >= 0 else -(i & 0x7FFFFFFFFFFFFFFF)


def ulpdist(a: float, b: float) -> int:
    return abs(ordf(a) - ordf(b))


def up(x: float) -> float:
    return math.nextafter(x, math.inf)


def down(x: float) -> float:
    return math.nextafter(x, -math.inf)


# ----------------------------------------------------------------------------- lattice
def lattice(mants: list[str], exps: list[int], signed: bool, zero: bool) -> list[str]:
    out = []
    for m in mants:
        for e in exps:
            out.append(f"{m}e{e}")
    if signed:
        out = out + ["-" + s for s in out]
    if zero:
        out.append("0")
    # distinct numbers only (e.g. 1e1 and 10e0 are not both generated, but be safe), sorted by value
    seen: dict[Fraction, str] = {}
    for s in out:
        seen.setdefault(Fraction(s), s)
    return [seen[k] for k in sorted(seen)]


def int_lattice(mants: list[int], exps: list[int], signed: bool) -> list[int]:
    vals = set()
    for m in mants:
        for e in exps:
            vals.add(m * 10 ** e)
    if signed:
        vals |= {-v for v in vals}
        vals.add(0)
    return sorted(vals)


def sizes(tier: str) -> dict[str, Any]:
    allexp = list(range(-6, 7))
    if tier == "quick":
        return dict(
            cont=lattice(["1", "3", "7", "1.5", "2.25", "9.999", "1.001"], allexp, True, True),
            logv=lattice(["1", "3", "7", "1.5", "2.25", "9.999", "1.001", "5"], allexp, False, False),
            stepv=lattice(["1", "3", "7", "1.5", "2.25", "9.999"], [-6, -3, -1, 0, 1, 3], True, True),
            steps=["0.1", "0.3", "0.25", "1", "7", "1e-3", "0.5", "1.5", "2.25", "100", "1e-6", "0.07", "30"],
            intv=int_lattice([1, 2, 3, 7, 15, 64, 225, 9999], [0, 1, 2, 3], True),
            isteps=[1, 2, 3, 7, 10],
            ilogv=int_lattice([1, 2, 3, 7, 15, 64, 225, 9999], [0, 1, 2, 3], False),
            dep_cont=lattice(["1", "3", "2.25"], [-6, -1, 0, 3], True, True),
            dep_logv=lattice(["1", "3", "2.25", "1.001"], [-6, -3, -1, 0, 1, 3, 6], False, False),
            dep_stepv=lattice(["1", "3", "2.25"], [-3, -1, 0, 1], True, True),
            dep_steps=["0.1", "0.3", "0.25", "1", "7", "1e-3"],
            dep_intv=int_lattice([1, 2, 3, 7, 15], [0, 1, 3], True),
            dep_isteps=[1, 2, 3, 7],
            K=8,
            pool=[None, True, False, 0, 1, -3, 2.5, 1.0, 0.0, NAN, "", "a", "1", "None"],
        )
    return dict(
        cont=lattice(["1", "3", "7", "1.5", "2.25", "9.999", "1.001", "5", "2", "4.75", "6.125", "8.5",
                      "1.25", "3.3"], allexp, True, True),
        logv=lattice(["1", "3", "7", "1.5", "2.25", "9.999", "1.001", "5", "2", "4.75", "6.125", "8.5",
                      "1.25", "3.3", "1.1", "9"], allexp, False, False),
        stepv=lattice(["1", "3", "7", "2.25", "9.999"], allexp, True, True),
        steps=["0.1", "0.3", "0.25", "1", "7", "1e-3", "0.5", "1.5", "2.25", "100", "1e-6", "0.07", "30",
               "0.01", "0.2", "0.7", "3", "1.001"],
        intv=int_lattice([1, 2, 3, 5, 7, 15, 64, 225, 1001, 9999], [0, 1, 2, 3], True),
        isteps=[1, 2, 3, 7, 10, 64, 4, 5, 100, 1001],
        ilogv=int_lattice([1, 2, 3, 5, 7, 15, 64, 225, 1001, 9999], [0, 1, 2, 3], False),
        dep_cont=lattice(["1", "3", "2.25", "9.999"], [-6, -3, -1, 0, 1, 3, 6], True, True),
        dep_logv=lattice(["1", "3", "2.25", "1.001", "7", "9.999"], allexp, False, False),
        dep_stepv=lattice(["1", "3", "2.25", "7"], [-3, -1, 0, 1, 3], True, True),
        dep_steps=["0.1", "0.3", "0.25", "1", "7", "1e-3", "0.5", "1.5", "0.07", "30"],
        dep_intv=int_lattice([1, 2, 3, 7, 15, 64], [0, 1, 2, 3], True),
        dep_isteps=[1, 2, 3, 7, 10],
        K=64,
        pool=[None, True, False, 0, 1, -3, 2.5, 1.0, 0.0, NAN, "", "a", "1", "None", 7, -0.5, 1e-3, "nan",
              "A", 10 ** 6],
    )


# family -> (class name, log, has step, label used in finding keys)
FAMILIES = {
    "F": ("FloatDistribution", False, False, "Float"),
    "FL": ("FloatDistribution", True, False, "Float log"),
    "FS": ("FloatDistribution", False, True, "Float step"),
    "I": ("IntDistribution", False, True, "Int step"),
    "IL": ("IntDistribution", True, False, "Int log"),
    "U": ("UniformDistribution", False, False, "UniformDistribution"),
    "LU": ("LogUniformDistribution", True, False, "LogUniformDistribution"),
    "DU": ("DiscreteUniformDistribution", False, True, "DiscreteUniformDistribution"),
    "IU": ("IntUniformDistribution", False, True, "IntUniformDistribution"),
    "ILU": ("IntLogUniformDistribution", True, False, "IntLogUniformDistribution"),
}
INT_FAMS = ("I", "IL", "IU", "ILU")


def plan(tier: str) -> list[tuple]:
    """Tasks (family, low, highs, steps, K). All distributions with one (family, low, step) are in
    one task, so distributions that coincide after the documented `high` adjustment are recognised
    inside the task."""
    z = sizes(tier)
    tasks: list[tuple] = []

    def chunks(xs: list, n: int) -> list[list]:
        return [xs[i:i + n] for i in range(0, len(xs), n)]

    def pairs(fam: str, vals: list, steps: list, positive: bool, step_chunk: int = 1000) -> None:
        for i, lo in enumerate(vals):
            if positive and not Fraction(lo) > 0:
                continue
            highs = vals[i:]
            for sc in chunks(steps, step_chunk):
                tasks.append((fam, lo, highs, sc, z["K"]))

    pairs("F", z["cont"], [None], False)
    pairs("FL", z["logv"], [None], True)
    pairs("FS", z["stepv"], z["steps"], False, step_chunk=5 if tier == "quick" else 6)
    pairs("I", z["intv"], z["isteps"], False, step_chunk=5)
    pairs("IL", z["ilogv"], [1], True)
    pairs("U", z["dep_cont"], [None], False)
    pairs("LU", z["dep_logv"], [None], True)
    pairs("DU", z["dep_stepv"], z["dep_steps"], False)
    pairs("IU", z["dep_intv"], z["dep_isteps"], False)
    pairs("ILU", z["dep_intv"], [1], True)
    # merge tiny tasks (same family) so that the number of tasks stays in the low hundreds
    merged: list[tuple] = []
    by_fam: dict[str, list] = {}
    for t in tasks:
        by_fam.setdefault(t[0], []).append(t)
    for fam, ts in by_fam.items():
        cur: list = []
        w = 0
        cap = 400 if tier == "quick" else 1500
        for t in ts:
            cur.append(t)
            w += len(t[2]) * len(t[3])
            if w >= cap:
                merged.append(("num", cur))
                cur, w = [], 0
        if cur:
            merged.append(("num", cur))
    n = len(z["pool"])
    for i in range(n):
        merged.append(("cat", i, tier))
    return merged


# ----------------------------------------------------------------------------- helpers on optuna
def _imports():
    import optuna.distributions as D
    from optuna._transform import _SearchSpaceTransform

    return D, _SearchSpaceTransform


def outcome(fn, *a) -> tuple:
    try:
        return ("ok", fn(*a))
    except Exception as e:  # noqa: BLE001 - the outcome class is what is compared
        return ("err", type(e).__name__, str(e))


_PARTNERS: list | None = None


def partners():
    """Fixed partners of every class (and their JSON round trips) for the compatibility clause."""
    global _PARTNERS
    if _PARTNERS is None:
        D, _ = _imports()
        ps = [
            D.FloatDistribution(0.0, 1.0), D.FloatDistribution(1.0, 2.0, log=True),
            D.FloatDistribution(0.0, 1.0, step=0.5), D.IntDistribution(0, 3), D.IntDistribution(1, 8, log=True),
            D.IntDistribution(0, 4, step=2), D.CategoricalDistribution((1, 2)),
            D.CategoricalDistribution(("a",)), D.CategoricalDistribution((NAN, None)),
            D.UniformDistribution(0.0, 1.0), D.LogUniformDistribution(1.0, 2.0),
            D.DiscreteUniformDistribution(0.0, 1.0, 0.5), D.IntUniformDistribution(0, 3),
            D.IntLogUniformDistribution(1, 8),
        ]
        _PARTNERS = [(p, D.json_to_distribution(D.distribution_to_json(p))) for p in ps]
    return _PARTNERS


def make(D, fam: str, lo: Any, hi: Any, step: Any):
    cls, log, _, _ = FAMILIES[fam]
    if fam in INT_FAMS:
        if fam == "I":
            return D.IntDistribution(lo, hi, log=False, step=step)
        if fam == "IL":
            return D.IntDistribution(lo, hi, log=True)
        if fam == "IU":
            return D.IntUniformDistribution(lo, hi, step=step)
        return D.IntLogUniformDistribution(lo, hi)
    flo, fhi = float(lo), float(hi)
    if fam == "F":
        return D.FloatDistribution(flo, fhi)
    if fam == "FL":
        return D.FloatDistribution(flo, fhi, log=True)
    if fam == "FS":
        return D.FloatDistribution(flo, fhi, step=float(step))
    if fam == "U":
        return D.UniformDistribution(flo, fhi)
    if fam == "LU":
        return D.LogUniformDistribution(flo, fhi)
    if fam == "DU":
        return D.DiscreteUniformDistribution(flo, fhi, float(step))
    raise AssertionError(fam)


def new_equivalent(D, fam: str, d):
    """The documented new-class equivalent (attributes copied, as in
    _convert_old_distribution_to_new_distribution)."""
    if fam in INT_FAMS:
        return D.IntDistribution(d.low, d.high, log=d.log, step=d.step)
    return D.FloatDistribution(d.low, d.high, log=d.log, step=d.step)


def same_attrs(a, b) -> str | None:
    """Attribute-wise comparison including types (== alone accepts 1 == 1.0)."""
    da, db = a.__dict__, b.__dict__
    if da.keys() != db.keys():
        return "attr-names"
    for k in da:
        if type(da[k]) is not type(db[k]):
            return f"attr-type:{k}"
        if da[k] != db[k]:
            return f"attr-value:{k}"
    return None


# ----------------------------------------------------------------------------- numeric worker
class NumCase:
    """One numeric distribution together with everything the clauses need."""

    def __init__(self, D, fam: str, lo: Any, hi: Any, step: Any, K: int):
        self.fam = fam
        self.cls, self.log, self.has_step, self.label = FAMILIES[fam]
        if fam == "I" and step == 1:
            self.label = "Int"
        self.is_int = fam in INT_FAMS
        self.high_digits = 0
        self.inp = {"family": fam, "class": self.cls, "low": lo, "high": hi, "step": step, "log": self.log}
        self.d = make(D, fam, lo, hi, step)
        d = self.d
        if self.is_int:
            self.n = (hi - lo) // step if self.has_step else hi - lo
            self.exp_high: Any = lo + self.n * step if self.has_step else hi
            self.stepf: float | None = float(d.step)
        elif self.has_step:
            L, H, S = Fraction(lo), Fraction(hi), Fraction(step)
            self.n = int((H - L) // S)
            self.exp_high = float(L + self.n * S)
            self.stepf = float(step)
            self.L, self.S = L, S
            with decimal.localcontext() as dctx:
                dctx.prec = 80
                exact_high = decimal.Decimal(lo) + self.n * decimal.Decimal(step)
                self.high_digits = len(exact_high.normalize().as_tuple().digits)
        else:
            self.n = 0
            self.exp_high = float(hi)
            self.stepf = None
        ks = set(range(0, min(self.n, K) + 1)) | {self.n - 1, self.n, self.n // 2}
        self.ks = sorted(k for k in ks if 0 <= k <= self.n)

    def desc(self) -> dict:
        return {"input": self.inp, "dist": repr(self.d)}

    # values: list of (value, kind) with kind in exact | dec | high | cont
    def values(self) -> list[tuple[Any, str]]:
        d = self.d
        out: dict[Any, str] = {}

        def put(v: Any, kind: str) -> None:
            # strictest demand wins: exact > high > dec
            rank = {"exact": 0, "cont": 0, "high": 1, "dec": 2}
            if v not in out or rank[kind] < rank[out[v]]:
                out[v] = kind

        if self.is_int:
            st = d.step
            for k in self.ks:
                put(d.low + k * st, "exact")
        elif self.has_step:
            lo, hi, st = d.low, d.high, d.step
            for k in self.ks:
                put(min(max(k * st + lo, lo), hi), "exact")  # what the library produces for index k
            for k in self.ks:
                if k <= 16 or k >= self.n - 1 or k == self.n // 2:
                    put(float(self.L + k * self.S), "dec")  # what a user types for index k
            put(lo, "exact")
            put(hi, "high")
        else:
            lo, hi = d.low, d.high
            cands = [lo, hi, (lo + hi) / 2, up(lo), down(hi), lo + (hi - lo) * 0.25, lo + (hi - lo) / 3,
                     lo + (hi - lo) * 0.75, 0.0, 1.0, -1.0]
            if self.log:
                cands += [math.sqrt(lo * hi), math.sqrt(lo) * math.sqrt(hi)]
            for v in cands:
                if lo <= v <= hi:
                    put(v, "cont")
        return list(out.items())


def box_points(c: NumCase, tl: int, ts: int, z: int, raw: tuple[float, float]) -> list[float]:
    """Lattice points of the transformed box (in box coordinates)."""
    rlo, rhi = raw
    d = c.d
    xs: list[float] = [rlo, rhi]
    if rlo < rhi:
        w = rhi - rlo
        xs += [rlo + w / 2, up(rlo), down(rhi), rlo + w * 0.25, rlo + w * 0.75, rlo + w / 3]
        if c.stepf is not None and c.n >= 1:
            tk = sorted({k for k in (0, 1, c.n // 2, c.n - 1) if 0 <= k <= c.n - 1})
            for k in tk:
                if c.log and tl:
                    x = math.log(d.low + k + 0.5)
                else:
                    x = d.low + (k + 0.5) * c.stepf
                for y in (x, up(x), down(x)):
                    if rlo <= y <= rhi:
                        xs.append(y)
    if not z:
        return list(dict.fromkeys(xs))
    ps = [0.0, 1.0, 0.5, up(0.0), down(1.0)]
    if rlo < rhi:
        for x in xs:
            p = (x - rlo) / (rhi - rlo)
            ps.append(min(max(p, 0.0), 1.0))
    else:
        ps += [0.25, 1 / 3]
    return list(dict.fromkeys(ps))


def check_numeric(D, T, c: NumCase, part: Part) -> None:
    d = c.d
    lab = c.label
    fam = c.fam
    # stepped floats whose scale/step ratio is so large that float arithmetic cannot resolve the
    # library's own 1e-8 tolerance on the grid index: containment failures there get their own keys
    huge = ""
    if c.has_step and not c.is_int and max(abs(d.low), abs(d.high)) / d.step >= HUGE_RATIO:
        huge = "(scale/step>=1e7)"
    # stepped floats whose exact decimal `high` = low + k*step has more than 15 significant digits:
    # float(high) is then no longer the decimal number the Decimal-based adjustment computed, and
    # re-parsing adjusts it again: failures of the JSON clauses there get their own keys
    wide = "(high>15digits)" if c.high_digits > MAX_DIGITS else ""

    flags: dict | None = None

    def viol(clause: str, fl: str, failure: str, **kw) -> None:
        rep = c.desc()
        if flags is not None and fl != "-":
            rep["flags"] = flags
        rep.update(kw)
        part.violation(f"{clause}|{lab}|{fl}|{failure}", rep)

    # ---- json -----------------------------------------------------------------------------
    part.add("evaluations")
    s1 = D.distribution_to_json(d)
    r1 = D.json_to_distribution(s1)
    if type(r1) is not type(d):
        viol("json", "-", "class-changed", json=s1, observed=repr(r1))
    elif not (r1 == d and d == r1) or r1 != d:
        viol("json", "-", "not-equal" + wide, json=s1, observed=repr(r1))
    else:
        sa = same_attrs(d, r1)
        if sa:
            viol("json", "-", sa.split(":")[0], json=s1, observed=repr(r1), detail=sa)
    s2 = D.distribution_to_json(r1)
    if s2 != s1:
        viol("json", "-", "second-json-differs" + wide, json=s1, observed=s2)
    r2 = D.json_to_distribution(s2)
    if not (r2 == r1):
        viol("json", "-", "not-idempotent" + wide, json=s1, observed=repr(r2))
    # the stored JSON must carry the documented fields
    att = json.loads(s1)["attributes"]
    want = {"low": d.low, "high": d.high}
    if fam in ("F", "FL", "FS", "I", "IL"):
        want.update(step=d.step, log=d.log)
    elif fam == "DU":
        want.update(q=d.step)
    elif fam in ("IU", "ILU"):
        want.update(step=d.step)
    if att != want or any(type(att[k]) is not type(want[k]) for k in want):
        viol("json", "-", "attributes", json=s1, expected=want)
    # abbreviated form and documented conversion -> new-class equivalent
    part.add("evaluations")
    neq = new_equivalent(D, fam, d)
    ab = {"type": "int" if c.is_int else "float", "low": d.low, "high": d.high, "log": d.log}
    if d.step is not None:
        ab["step"] = d.step
    ra = D.json_to_distribution(json.dumps(ab))
    if type(ra) is not type(neq) or ra != neq or same_attrs(ra, neq):
        viol("json-abbrev", "-", "not-equal" + wide, json=json.dumps(ab), observed=repr(ra), expected=repr(neq))
    conv = D._convert_old_distribution_to_new_distribution(d, suppress_warning=True)
    if type(conv) is not type(neq) or conv != neq or same_attrs(conv, neq):
        viol("convert", "-", "not-equal" + wide, observed=repr(conv), expected=repr(neq))
    if (neq.low, neq.high, neq.step, neq.log) != (d.low, d.high, d.step, d.log):
        viol("convert", "-", "equivalent-readjusted" + wide, observed=repr(neq))

    # ---- values: repr + contains ----------------------------------------------------------
    part.add("evaluations")
    vals = []
    for v, kind in c.values():
        iv = d.to_internal_repr(v)
        if type(iv) is not float:
            viol("repr", "-", "internal-not-float", value=repr(v), observed=repr(iv))
        if not d._contains(iv):
            if kind == "dec" and huge:
                part.add("dec_grid_value_not_contained(scale/step>=1e7)")
                continue
            viol("contains", "-", f"own-{kind}-value-rejected{huge}", value=repr(v))
            continue
        ev = d.to_external_repr(iv)
        if type(ev) is not type(v) or ev != v:
            viol("repr", "-", "value-changed" if ev != v else "type-changed", value=repr(v), observed=repr(ev))
        ev2 = r1.to_external_repr(r1.to_internal_repr(v))
        if type(ev2) is not type(v) or ev2 != v:
            viol("repr", "-", "value-changed-after-json", value=repr(v), observed=repr(ev2))
        vals.append((v, kind))
        part.add("values")
    # containment answers unchanged by the round trip (contained and non-contained probes)
    part.add("evaluations")
    st = c.stepf if c.stepf is not None else (d.high - d.low) / 4 or 1.0
    probes = [float(v) for v, _ in vals]
    probes += [d.low - st, d.high + st, d.low + st / 2, d.high - st / 3, down(float(d.low)), up(float(d.high)),
               d.low + st, d.low + 1e-9 * st, d.low + 2e-8 * st, 0.0, -0.0, 1.0, math.inf, -math.inf, NAN]
    for x in probes:
        a, b = d._contains(x), r1._contains(x)
        if a != b or (r2._contains(x) != a):
            viol("contains", "-", "answer-changed" + wide, probe=repr(x), expected=a, observed=b)
    part.add("contains_probes", len(probes))
    for x in (d.low - st, d.high + st, down(float(d.low)), up(float(d.high)), math.inf, -math.inf, NAN):
        if d._contains(x):
            viol("contains", "-", "outside-accepted", probe=repr(x))

    # ---- compat ---------------------------------------------------------------------------
    part.add("evaluations")
    chk = D.check_distribution_compatibility
    for a, b in ((d, r1), (r1, d), (d, d), (r1, r2)):
        o = outcome(chk, a, b)
        if o != ("ok", None):
            viol("compat", "-", "self-incompatible", observed=o)
    own = [(neq, neq), (conv, conv)]
    for p, rp in partners() + own:
        for flip in (0, 1):
            base = outcome(chk, *((d, p) if not flip else (p, d)))
            for x, y in ((r1, rp), (d, rp), (r1, p)):
                o = outcome(chk, *((x, y) if not flip else (y, x)))
                if o != base:
                    viol("compat", "-", "answer-changed", partner=repr(p), expected=base, observed=o)
            part.add("compat_pairs", 4)

    # ---- transform ------------------------------------------------------------------------
    if not vals:
        return
    raws: dict[tuple[int, int], tuple[float, float]] = {}
    cat = D.CategoricalDistribution(("a", None))
    for tl, ts, z in FLAGS:
        # flags that cannot matter for this class are shown as * in the finding key (the replay has them)
        fl = f"log={tl if c.log else '*'} step={ts if c.stepf is not None else '*'} 01={z}"
        flags = {"transform_log": tl, "transform_step": ts, "transform_0_1": z}
        # sampling from the box of a log-scaled distribution requires transform_log=True (docstring
        # of _SearchSpaceTransform): the box clause is not evaluated otherwise
        skip_box = bool(c.log and not tl)
        part.add("evaluations", 1 if skip_box else 2)
        # raw bounds come from the same transform without 0_1 (public attribute `bounds`)
        if (tl, ts) not in raws:
            t0 = T({"x": d}, transform_log=bool(tl), transform_step=bool(ts), transform_0_1=False)
            b0 = t0.bounds
            if b0.shape != (1, 2):
                viol("box", fl, "bounds-shape", observed=str(b0.shape))
                continue
            raws[(tl, ts)] = (float(b0[0, 0]), float(b0[0, 1]))
        raw = raws[(tl, ts)]
        pts = box_points(c, tl, ts, z, raw)
        # one search space holds the same distribution under many names (after a categorical, so
        # that encoded columns are offset): one configuration carries all values / all box points
        n = len(vals)
        names = [f"p{i}" for i in range(max(n, len(pts)))]
        space: dict[str, Any] = {"c": cat}
        for nm in names[:n]:
            space[nm] = d
        tr = T(space, transform_log=bool(tl), transform_step=bool(ts), transform_0_1=bool(z))
        bounds = tr.bounds
        cols = tr.column_to_encoded_columns
        if bounds.shape != (n + 2, 2) or len(cols) != n + 1:
            viol("box", fl, "bounds-shape", observed=str(bounds.shape))
            continue
        blo, bhi = float(bounds[2, 0]), float(bounds[2, 1])
        if z and (blo, bhi) != (0.0, 1.0):
            viol("box", fl, "unit-box-expected", observed=[blo, bhi])
        if not z and (blo, bhi) != raw:
            viol("box", fl, "bounds-depend-on-space", observed=[blo, bhi], expected=list(raw))
        if not (blo <= bhi) or math.isnan(blo) or math.isnan(bhi):
            viol("box", fl, "bounds-not-ordered", observed=[blo, bhi])
            continue
        cfg = {"c": None}
        for i in range(n):
            cfg[names[i]] = vals[i][0]
        x = tr.transform(cfg)
        back = tr.untransform(x)
        if back["c"] is not None:
            viol("transform-roundtrip", fl, "neighbour-categorical-changed", observed=repr(back["c"]))
        scale_ulp = math.ulp(max(abs(d.low), abs(d.high)))
        for i, (v, kind) in enumerate(vals):
            u = back[names[i]]
            xi = float(x[2 + i])
            part.add("roundtrips")
            if not (blo <= xi <= bhi):
                viol("transform-roundtrip", fl, "transformed-value-outside-box", value=repr(v), observed=xi,
                     bounds=[blo, bhi])
            if c.is_int:
                if type(u) is not int:
                    viol("transform-roundtrip", fl, "type-changed", value=repr(v), observed=repr(u))
                elif u != v:
                    viol("transform-roundtrip", fl, "value-changed", value=repr(v), observed=repr(u))
                continue
            if not isinstance(u, float):
                viol("transform-roundtrip", fl, "type-changed", value=repr(v), observed=repr(u))
                continue
            u = float(u)
            if u == v:
                continue
            if c.has_step:
                err = abs(u - v) / scale_ulp
                if kind == "exact":
                    viol("transform-roundtrip", fl, "value-changed", value=repr(v), observed=repr(u))
                elif kind == "high":
                    part.setmax("max_ulps_step_high", math.ceil(err))
                    viol("transform-roundtrip", fl, "high-changed", value=repr(v), observed=repr(u))
                else:
                    part.setmax("max_ulps_step_decimal_value", math.ceil(err))
                    part.add("decimal_grid_values_changed_within_tolerance")
                    if err > TOL_DEC:
                        viol("transform-roundtrip", fl, "decimal-value-changed-beyond-tolerance", value=repr(v),
                             observed=repr(u), ulps_of_scale=err)
                    elif not d._contains(u):
                        viol("transform-roundtrip", fl, f"outside-domain{huge}", value=repr(v), observed=repr(u))
                continue
            # continuous floats
            if c.log and tl:
                e = ulpdist(u, v)
                part.setmax(f"max_ulps_logfloat_01={z}", e)
                if e > (tol_log_01(v, d.low, d.high) if z else tol_log(v)):
                    viol("transform-roundtrip", fl, "value-changed-beyond-tolerance", value=repr(v),
                         observed=repr(u), ulps=e)
                continue
            if not z:
                if v == d.high and not d.single() and u == down(d.high):
                    part.add("high_clipped_1ulp")
                    continue
                viol("transform-roundtrip", fl, "value-changed", value=repr(v), observed=repr(u))
                continue
            err = abs(u - v) / scale_ulp
            part.setmax("max_ulps_float_01", math.ceil(err))
            if err > TOL_01 and not (v == d.high and u == down(d.high)):
                viol("transform-roundtrip", fl, "value-changed-beyond-tolerance", value=repr(v), observed=repr(u),
                     ulps_of_scale=err)
        # box points
        if skip_box:
            part.add("box_skipped_log_without_transform_log")
            continue
        m = len(pts)
        if m != n:
            space = {"c": cat}
            for nm in names[:m]:
                space[nm] = d
            tr = T(space, transform_log=bool(tl), transform_step=bool(ts), transform_0_1=bool(z))
            b2 = tr.bounds
            if b2.shape != (m + 2, 2) or (float(b2[m + 1, 0]), float(b2[m + 1, 1])) != (blo, bhi):
                viol("box", fl, "bounds-depend-on-space", observed=b2[m + 1].tolist(), expected=[blo, bhi])
                continue
        arr = np.zeros(m + 2, dtype=np.float64)
        arr[0], arr[1] = 0.25, 0.75
        for i in range(m):
            arr[2 + i] = pts[i]
        for p in pts:
            if not (blo <= p <= bhi):
                from .core import InternalError

                raise InternalError(f"box lattice point {p!r} outside bounds {(blo, bhi)} for {c.desc()}")
        got = tr.untransform(arr)
        if got["c"] is not None:
            viol("box", fl, "neighbour-categorical-wrong", observed=repr(got["c"]))
        for i, p in enumerate(pts):
            u = got[names[i]]
            part.add("box_points")
            if c.is_int:
                if type(u) is not int:
                    viol("box", fl, "type", point=repr(p), observed=repr(u))
                    continue
            elif not isinstance(u, float):
                viol("box", fl, "type", point=repr(p), observed=repr(u))
                continue
            o = outcome(d.to_internal_repr, u)
            if o[0] != "ok":
                viol("box", fl, "outside-domain", point=repr(p), observed=repr(u), detail=o)
                continue
            if d._contains(o[1]):
                continue
            if c.log and not c.is_int and tl:
                u = float(u)
                e = ulpdist(u, d.low) if u < d.low else ulpdist(u, d.high)
                part.setmax(f"max_ulps_logfloat_box_outside_01={z}", e)
                if e <= tol_log(d.low if u < d.low else d.high):
                    continue
                viol("box", fl, "outside-domain-beyond-tolerance", point=repr(p), observed=repr(u), ulps=e)
                continue
            viol("box", fl, f"outside-domain{huge}", point=repr(p), observed=repr(u), bounds=[blo, bhi])


def num_worker(task: tuple) -> dict:
    _quiet()
    D, T = _imports()
    part = Part()
    _, subtasks = task
    for fam, lo_s, highs, steps, K in subtasks:
        seen: set = set()
        is_int = fam in INT_FAMS
        _, log, has_step, lab = FAMILIES[fam]
        for hi_s in highs:
            for st_s in steps:
                part.add("inputs")
                lo, hi, st = (lo_s, hi_s, st_s)
                try:
                    c = NumCase(D, fam, lo, hi, st, K)
                except Exception as e:  # noqa: BLE001
                    part.violation(f"construct|{lab}|-|valid-input-rejected",
                                   {"input": {"family": fam, "low": lo, "high": hi, "step": st},
                                    "observed": f"{type(e).__name__}: {e}"})
                    continue
                d = c.d
                # ---- construct ---------------------------------------------------------------
                part.add("evaluations")
                tnum = int if is_int else float
                exp = (tnum(lo), c.exp_high, log, (tnum(st) if has_step else (1 if is_int else None)))
                obs = (d.low, d.high, d.log, d.step)
                if obs != exp or any(type(a) is not type(b) for a, b in zip(obs, exp)):
                    which = "high-adjust" if obs[1] != exp[1] else "attributes"
                    part.violation(f"construct|{c.label}|-|{which}",
                                   dict(c.desc(), expected=list(exp), observed=list(obs)))
                key = (d.low, d.high, d.step)
                if key in seen:
                    part.add("inputs_coinciding_after_high_adjust")
                    continue
                seen.add(key)
                part.add("distributions")
                part.add(f"distributions_{c.label.replace(' ', '_')}")
                if not d.single():
                    part.add("distinct_nontrivial")
                if c.n > 3 and has_step and not is_int and (Fraction(hi_s) - Fraction(lo_s)) % Fraction(st_s) != 0:
                    part.sample(c.desc(), cap=1)
                check_numeric(D, T, c, part)
    return part.out()


# ----------------------------------------------------------------------------- categorical worker
def ceq(a: Any, b: Any) -> bool:
    """Equality of choices as the library documents it: == or both NaN."""
    an = isinstance(a, float) and math.isnan(a)
    bn = isinstance(b, float) and math.isnan(b)
    return (an and bn) or (a == b)


def cat_worker(task: tuple) -> dict:
    _quiet()
    D, T = _imports()
    part = Part()
    _, first, tier = task
    pool = sizes(tier)["pool"]
    idxs = [(first,)]
    others = [i for i in range(len(pool)) if i != first]
    idxs += [(first, j) for j in others]
    idxs += [(first, j, k) for j in others for k in others if k != j]
    chk = D.check_distribution_compatibility
    for ix in idxs:
        choices = tuple(pool[i] for i in ix)
        part.add("inputs")
        inp = {"family": "C", "choices": [repr(x) for x in choices], "pool_indices": list(ix)}
        try:
            d = D.CategoricalDistribution(choices)
        except Exception as e:  # noqa: BLE001
            part.violation("construct|Categorical|-|valid-input-rejected", {"input": inp, "observed": repr(e)})
            continue
        n = len(choices)
        has_nan = any(isinstance(x, float) and math.isnan(x) for x in choices)
        lab = "Categorical nan" if has_nan else "Categorical"
        first_match = [min(j for j in range(n) if ceq(choices[j], choices[i])) for i in range(n)]

        def viol(clause: str, flags: str, failure: str, **kw) -> None:
            rep = {"input": inp, "dist": repr(d)}
            rep.update(kw)
            part.violation(f"{clause}|{lab}|{flags}|{failure}", rep)

        part.add("distributions")
        part.add("distributions_Categorical")
        if n > 1:
            part.add("distinct_nontrivial")
        if n == 3 and has_nan:
            part.sample({"input": inp}, cap=1)
        part.add("evaluations")
        if type(d.choices) is not tuple or len(d.choices) != n or any(a is not b for a, b in zip(d.choices, choices)):
            viol("construct", "-", "attributes", observed=repr(d.choices))
        # ---- json ---------------------------------------------------------------------------
        part.add("evaluations")
        s1 = D.distribution_to_json(d)
        r1 = D.json_to_distribution(s1)
        if type(r1) is not type(d):
            viol("json", "-", "class-changed", json=s1)
            continue
        if not (r1 == d and d == r1) or (r1 != d):
            viol("json", "-", "not-equal", json=s1, observed=repr(r1))
        if type(r1.choices) is not tuple or len(r1.choices) != n:
            viol("json", "-", "attr-type", json=s1, observed=repr(r1.choices))
            continue
        for a, b in zip(d.choices, r1.choices):
            if type(a) is not type(b):
                viol("json", "-", "choice-type-changed", json=s1, expected=repr(a), observed=repr(b))
            elif not ceq(a, b):
                viol("json", "-", "choice-value-changed", json=s1, expected=repr(a), observed=repr(b))
        s2 = D.distribution_to_json(r1)
        if s2 != s1:
            viol("json", "-", "second-json-differs", json=s1, observed=s2)
        r2 = D.json_to_distribution(s2)
        if not (r2 == r1):
            viol("json", "-", "not-idempotent", json=s1)
        ra = D.json_to_distribution(json.dumps({"type": "categorical", "choices": list(choices)}))
        if type(ra) is not type(d) or not (ra == d):
            viol("json-abbrev", "-", "not-equal", observed=repr(ra))
        conv = D._convert_old_distribution_to_new_distribution(d, suppress_warning=True)
        if conv is not d and not (conv == d):
            viol("convert", "-", "not-equal", observed=repr(conv))
        # ---- repr / contains ------------------------------------------------------------------
        part.add("evaluations")
        for i, v in enumerate(choices):
            part.add("values")
            for who, dist in (("", d), ("-after-json", r1)):
                o = outcome(dist.to_internal_repr, v)
                if o[0] != "ok":
                    viol("repr", "-", "contained-value-rejected" + who, value=repr(v), observed=o)
                    continue
                iv = o[1]
                if iv != first_match[i]:
                    viol("repr", "-", "wrong-index" + who, value=repr(v), observed=iv, expected=first_match[i])
                    continue
                if not dist._contains(iv):
                    viol("contains", "-", "own-value-rejected" + who, value=repr(v))
                ev = dist.to_external_repr(iv)
                if not ceq(ev, v):
                    viol("repr", "-", "value-changed" + who, value=repr(v), observed=repr(ev))
                elif first_match[i] == i and (type(ev) is not type(v) or (who == "" and ev is not v)):
                    viol("repr", "-", "type-changed" + who, value=repr(v), observed=repr(ev))
            # an equal value that is a different object (as read back from a storage)
            if isinstance(v, float):
                w = float(repr(v)) if not math.isnan(v) else float("nan")
                o = outcome(d.to_internal_repr, w)
                if o != ("ok", first_match[i]):
                    viol("repr", "-", "equal-value-other-object", value=repr(v), observed=o)
        part.add("evaluations")
        for x in [-1, -1.0, -0.5, 0, 0.0, 0.5, n - 1, n - 0.5, float(n), n + 1, 1e9, -1e9]:
            a, b = d._contains(x), r1._contains(x)
            if a != b:
                viol("contains", "-", "answer-changed", probe=repr(x), expected=a, observed=b)
            part.add("contains_probes")
        # ---- compat ---------------------------------------------------------------------------
        part.add("evaluations")
        for a, b in ((d, r1), (r1, d), (d, d), (r1, r2)):
            o = outcome(chk, a, b)
            if o != ("ok", None):
                viol("compat", "-", "self-incompatible", observed=o)
        own = [D.CategoricalDistribution(choices[::-1]), D.CategoricalDistribution(choices + ("zz",)),
               D.CategoricalDistribution(tuple(1.0 if x is True else (None if x == "" else x) for x in choices))]
        if n > 1:
            own.append(D.CategoricalDistribution(choices[:-1]))
        ownp = [(p, D.json_to_distribution(D.distribution_to_json(p))) for p in own]
        for p, rp in partners() + ownp:
            for flip in (0, 1):
                base = outcome(chk, *((d, p) if not flip else (p, d)))
                for x, y in ((r1, rp), (d, rp), (r1, p)):
                    o = outcome(chk, *((x, y) if not flip else (y, x)))
                    if o != base:
                        viol("compat", "-", "answer-changed", partner=repr(p), expected=base, observed=o)
                part.add("compat_pairs", 4)
        # ---- transform ------------------------------------------------------------------------
        grid = [0.0, 1.0, 0.5, up(0.0), down(1.0)]
        fl_other = D.FloatDistribution(-1.0, 1.0)
        for tl, ts, z in FLAGS:
            fl = f"log={tl} step={ts} 01={z}"
            part.add("evaluations", 2)
            tr = T({"f": fl_other, "x": d}, transform_log=bool(tl), transform_step=bool(ts), transform_0_1=bool(z))
            tr_json = T({"f": fl_other, "x": r1}, transform_log=bool(tl), transform_step=bool(ts), transform_0_1=bool(z))
            b = tr.bounds
            if b.shape != (n + 1, 2) or any((float(b[1 + j, 0]), float(b[1 + j, 1])) != (0.0, 1.0) for j in range(n)):
                viol("box", fl, "bounds", observed=b.tolist())
                continue
            for i, v in enumerate(choices):
                part.add("roundtrips")
                x = tr.transform({"f": 0.5, "x": v})
                oh = [float(t) for t in x[1:]]
                want = [1.0 if j == first_match[i] else 0.0 for j in range(n)]
                if oh != want:
                    viol("transform-roundtrip", fl, "not-one-hot", value=repr(v), observed=oh)
                u = tr.untransform(x)["x"]
                if not ceq(u, v):
                    viol("transform-roundtrip", fl, "value-changed", value=repr(v), observed=repr(u))
                elif first_match[i] == i and u is not v:
                    viol("transform-roundtrip", fl, "type-changed", value=repr(v), observed=repr(u))
                # the same configuration as read back from a storage / parsed from JSON: an equal
                # value that is another object, and the distribution after its JSON round trip
                probes = [("after-json-distribution", tr_json, v)]
                if isinstance(v, float):
                    probes.append(("equal-value-other-object", tr, float(repr(v)) if not math.isnan(v) else float("nan")))
                for what, trx, w in probes:
                    part.add("roundtrips")
                    o = outcome(trx.transform, {"f": 0.5, "x": w})
                    if o[0] != "ok" or [float(t) for t in o[1][1:]] != want:
                        viol("transform-roundtrip", fl, "answer-changed-" + what, value=repr(v),
                             observed=o[1].tolist() if o[0] == "ok" else o)
            for pt in itertools.product(grid, repeat=n):
                part.add("box_points")
                u = tr.untransform(np.array((0.3,) + pt, dtype=np.float64))["x"]
                if not any(u is ch for ch in choices):
                    viol("box", fl, "outside-domain", point=list(pt), observed=repr(u))
    return part.out()


def worker(task: tuple) -> dict:
    return num_worker(task) if task[0] == "num" else cat_worker(task)


# ----------------------------------------------------------------------------- driver
def run(tier: str, replay: str | None = None) -> int:
    _quiet()
    ctx = Ctx(PID, tier, "exploration")
    if replay is not None:
        rep = json.load(open(replay))
        inp = rep["input"]
        if inp["family"] == "C":  # re-runs every choice tuple that starts with the same pool element
            tasks = [("cat", inp["pool_indices"][0], rep.get("tier", tier))]
        else:
            tasks = [("num", [(inp["family"], inp["low"], [inp["high"]], [inp["step"]], 64)])]
    else:
        tasks = plan(tier)
    pmap(ctx, worker, tasks)
    z = sizes(tier)
    ctx.cov["tasks"] = len(tasks)
    ctx.cov["lattice"] = {k: (len(v) if isinstance(v, list) else v) for k, v in z.items()}
    ctx.cov["tolerances_ulps"] = {"log_float": "max(4, 2+ceil|ln v|)",
                                  "log_float_with_0_1": "log_float + 2*ceil(max(|ln low|,|ln high|,1))",
                                  "float_with_0_1_of_scale": TOL_01, "stepped_decimal_value_of_scale": TOL_DEC}
    ctx.assumptions += [
        "ordinary magnitudes = decimal numbers of <= 4 significant digits with exponent in [-6, 6], as the correctly rounded double of the typed decimal string",
        "deprecated classes: json_to_distribution returns the same deprecated class in this tree; equality demanded literally, plus the documented conversion gives the new-class distribution with identical low/high/step/log",
        "NaN choices: equality in the library's documented NaN-aware sense (_categorical_choice_equal); choices equal to an earlier choice (True/1/1.0) map to the first match (documented NOTE) and are only compared with ==",
        "stepped floats: exact transform round trip demanded for low, high and the values clip(k*step+low) the library produces; decimal-typed float(low+k*step) values must come back within 4 ulp of max(|low|,|high|) and stay contained",
        "continuous floats: untransform clips to nextafter(high,-inf) on purpose, v == high coming back 1 ulp lower is accepted; with transform_0_1 the scaling arithmetic is allowed 2 ulp of max(|low|,|high|)",
        "log floats with transform_log: exp(log(v)) is good to about |ln v| ulps, so 'a few ulps' is max(4, 2+ceil|ln v|) (16 at 1e+-6; measured max 9); with transform_0_1 additionally 2*ceil(max|ln bound|) ulps for the scaling in log space (measured max 25); box points of log floats may leave [low, high] by the same max(4, 2+ceil|ln bound|) ulps (measured max 8)",
        "box clause is not evaluated for log-scaled distributions (Float log, Int log, LogUniformDistribution, IntLogUniformDistribution) with transform_log=False: the _SearchSpaceTransform docstring makes transform_log=True a precondition for sampling from the transformed space (skipped cases counted in box_skipped_log_without_transform_log); the transform round trip is still demanded for those flags",
        "the abbreviated JSON form has no serialiser in optuna; it is written by the check from the attributes",
        "finding keys of stepped floats carry (scale/step>=1e7) when max(|low|,|high|)/step >= 1e7 and (high>15digits) when the exact adjusted high needs more than 15 significant digits; flags that cannot matter for a class are printed as * in keys",
        "multi-parameter configurations: every value / box point of one distribution is carried by one configuration of a search space {categorical, d, d, ..., d}; spaces mixing different numeric distributions are not enumerated",
    ]
    return ctx.finish(
        exhaustive=True,
        rule="full product of the (low, high, step, log) lattice per class (nothing sampled) x all contained lattice values x 8 flag combinations x box lattice points; distinct_nontrivial = distinct distributions (after the documented high adjustment) that are not single-point",
    )


if __name__ == "__main__":
    main_wrapper(run)
