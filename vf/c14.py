"""C14 - exhaustive samplers visit every point of a finite space exactly once, then stop.

Bounded-exhaustive ("model checking" style) check: EVERY tree-shaped define-by-run program up to a
size bound is run against the real BruteForceSampler / GridSampler through the real
Study.optimize(), under every seed / failure pattern / split of the run of a variant plan (nothing
is sampled), and the multiset of evaluated parameter combinations is compared with the set of
reachable leaves of the program.

Programs (BruteForceSampler)
    tree := LEAF | (kind, children)   one child per value of the domain, in the order of `values`
    kind in  i01   suggest_int(0, 1)              i02  suggest_int(0, 2)
             i04s2 suggest_int(0, 4, step=2)      li14 suggest_int(1, 4, log=True)
             cat   suggest_categorical(("a", None))
             f05   suggest_float(0, 1, step=0.5)  i33  suggest_int(3, 3)   (single value)
    children are either all the same subtree, or the FIRST value's branch differs from the (equal)
    others: conditional spaces, branches of different depth, single-value domains.
    Names, two modes (a program is run in both when they differ structurally):
      level: "p<depth>" + suffix of the distribution class ("" int, "l" log int, "c" categorical,
             "f" float) - so two branches that suggest ints of different RANGE at the same depth
             re-use one name with different ranges;
      count: "<class><number of ancestors of that class>" - the same name is re-used at different
             depths of different branches (with different ranges).
    The same name never carries two kinds of distribution (optuna rejects that by contract in
    storage.set_trial_param -> check_distribution_compatibility) and never appears twice on one
    path. Re-using a name with a different range in ANOTHER branch is supported by
    BruteForceSampler: its tree is keyed by the path of (name, value) pairs, a node only insists on
    the same name + candidate set when reached through the same prefix (_TreeNode.expand), and tree
    shaped programs are functions of the prefix. Nothing had to be excluded.

Reading of the failed-trial contract (decides the oracle)
    BruteForceSampler fetches COMPLETE, PRUNED, RUNNING and FAIL trials and _populate_tree() marks
    the node at the end of the path of every trial with state.is_finished() (so also FAIL and
    PRUNED) as a leaf = visited. Failed and pruned trials are therefore NOT retried; a point whose
    evaluation failed / was pruned / was interrupted by KeyboardInterrupt (optimize tells FAIL, then
    re-raises) has had its one evaluation. GridSampler._get_unvisited_grid_ids() likewise counts
    every finished trial (any state) carrying a grid_id of the same search space as visited.
    (Retrying is the job of RetryFailedTrialCallback, which is not used here.) This agrees with the
    property text ("exactly once ... also when some trials fail or are pruned"), so the oracle is:
    the multiset of combinations for which the objective body ran to its leaf (whatever happened
    afterwards) == the set of reachable leaves, each exactly once.
    Deterministic raise at an inner node (before the next suggest): every evaluation that reaches
    the node fails there, so the prefix combination IS a reachable leaf of the effective program.
    The sampler sees a finished trial whose parameter path ends at that node and marks it a leaf;
    demanded: that prefix is evaluated exactly once, like any other leaf (the statement says no
    more). A raise at the root gives the program with the single empty combination.
    NOT demanded: anything about an optimize() call on an already exhausted study (it evaluates a
    duplicate and stops), so every non-final optimize call is cut BEFORE exhaustion and a
    KeyboardInterrupt is never placed in the last evaluation. NOT exercised: a failure that is not
    a function of the parameter prefix at an INNER node (e.g. KeyboardInterrupt between two
    suggests): the FAIL trial's parameter path then ends at a node where other trials go on; the
    sampler either skips the subtree below it or raises "ValueError: param_name mismatch" (also
    from after_trial, replacing the KeyboardInterrupt, and from every later optimize call). That is
    the contract for a study that holds trials with a prefix / an extension of another trial's
    parameters: class docstring note ("may fail to try the entire search space when the suggestion
    ranges or parameters are changed in the same study") and upstream
    test_study_optimize_with_nonconstant_search_space (pytest.raises(ValueError)). Probed by hand
    (2x2 program, interrupt between the two suggests), mentioned in the report, never an alarm.

    Stale RUNNING trial (a worker that was killed: the strongest form of "interrupted and
    resumed"; the only sequential situation in which avoid_premature_stop matters):
      avoid_premature_stop=True  ("strict exhaustive search"): every reachable leaf is evaluated
          exactly once by the resumed run (the stale trial never finished its point);
      avoid_premature_stop=False (documented "looser criterion ... may result in incomplete
          coverage", issue 5780): leaves outside the stale node's subtree exactly once, leaves
          below it at most once; the run must stop by itself.

Grids (GridSampler)
    all shapes (n_1..n_k), k <= 3, n_i in 1..3 (39 shapes, up to 27 cells) x 8 value themes that
    rotate a pool [None, True, nan, 0.5, "a", False, 2, ""] through every position, plus the empty
    grid {} (one cell, no parameter). Lists of plain numbers are suggested with suggest_float, all
    others (None / bool / str / nan) with suggest_categorical over the list (nan under
    suggest_float is rejected by FloatDistribution itself). Pre-existing non-grid trials: 1 or 2
    COMPLETE trials added with study.add_trial whose params EQUAL a grid cell (no grid_id: must not
    be counted, the cell is still evaluated), an enqueued trial (all parameters given, as the
    GridSampler docstring requires) before the first call, or enqueued before the last call. An
    enqueued trial is evaluated by optimize (expected multiset = cells + the enqueued combination).
    Failed / pruned / interrupted cells are visited (see above). A deterministic raise before
    suggesting parameter k: every cell is still visited once; observed and compared is the
    projection of the cells on the first k parameters.

Variant plans (see plan_bf / plan_grid for the exact products; every listed combination is run)
    seed {0,1,2} x failure {none | evaluation i in {0,1,2} raises a caught exception after its
    suggests | evaluation i is pruned after its suggests | deterministic raise (caught exception or
    TrialPruned) at an inner node} x schedule {1, 2 or 3 optimize calls; cut positions enumerated;
    a cut is either n_trials running out or a KeyboardInterrupt in the evaluation just before the
    cut (at most one per run)} x avoid_premature_stop {F,T}; stale RUNNING trials at every node.
    The full cross product is affordable only on the smallest axis values, so the plans take the
    full product on the axes that interact (failure pattern x schedule for seed 0) and a reduced
    product elsewhere; the plan docstrings say exactly what. JournalStorage over a file in /dev/shm
    for a subset, with a NEW storage + study + sampler object (same seed) for every resumed call.
    The caught exception is a private Exception subclass (optimize(catch=(Planned,))) rather than
    ValueError so that a ValueError raised by the sampler itself is never swallowed as "a failing
    trial".

Finding on the unmodified tree (reported as VIOLATION until recorded in known_findings.json)
    grid|optimize-raised:KeyError|pre=enq-start / pre=enq-last: GridSampler.after_trial reads
    system_attrs["grid_id"] of the finished trial when exactly one grid cell is unvisited; an
    enqueued trial (fixed_params, documented as supported "with all parameters specified") has no
    grid_id, so optimize() dies with KeyError('grid_id') and the last cell is never evaluated.
    Minimal: GridSampler({"g0": [None]}), study.enqueue_trial({"g0": None}), study.optimize(f).

Mutations of optuna this check must catch (each verified with VF_REPO=<scratch copy>, quick tier;
the violation keys that appeared are given):
  M1  _brute_force.py  _TreeNode.count_unexpanded: `return 0 if self.is_running else 1` (running
      leaves ignored also with avoid_premature_stop=True)
        -> bruteforce|leaf-never-evaluated|failure=none split=1 aps=T pre=stale storage=mem
  M2  _brute_force.py  TrialState.FAIL dropped from the states fetched in sample_independent and
      after_trial (failed points are forgotten and retried)
        -> bruteforce|leaf-evaluated-twice|failure=fail ..., bruteforce|did-not-stop|failure=inner-fail ...
  M3  _brute_force.py  after_trial: `if tree.count_unexpanded(exclude_running) <= 1: study.stop()`
      (off by one in the stop test)
        -> bruteforce|stopped-before-exhaustion|..., bruteforce|leaf-never-evaluated|...
  M4  _brute_force.py  sample_child: weight 1 for every child (fully expanded children are not
      excluded)
        -> bruteforce|leaf-evaluated-twice|..., bruteforce|leaf-never-evaluated|..., bruteforce|did-not-stop|...
  M5  _grid.py  _get_unvisited_grid_ids: `if t.state == TrialState.COMPLETE` for visited (failed
      and pruned grid cells are retried)
        -> grid|cell-evaluated-twice|failure=fail/prune ..., grid|did-not-stop|failure=inner-...
  M6  _grid.py  after_trial: no stop when the finished (still RUNNING) trial holds the last
      unvisited cell
        -> grid|cell-evaluated-twice|...
  M7  _grid.py  `self._n_min_trials = len(self._all_grids) - 1`
        -> grid|cell-never-evaluated|..., grid|cell-evaluated-twice|...
  Equivalent in sequential runs, hence NOT detectable here: _get_unvisited_grid_ids ignoring
  RUNNING trials (the only RUNNING trial with a grid_id is the current one, and both variants
  then agree on whether it is the last cell).
"""
from __future__ import annotations

import collections
import itertools
import json
import math
import os
from typing import Any

import optuna
from optuna.distributions import CategoricalDistribution, FloatDistribution, IntDistribution
from optuna.trial import TrialState

from . import backends
from .core import Ctx, Part, main_wrapper, pmap

PID = "C14"
NAN = float("nan")


class Planned(Exception):
    """The objective's planned, caught failure."""


class OutOfDomain(Exception):
    """The sampler handed the objective a value outside the suggested domain (never caught)."""


# ---------------------------------------------------------------------------------------------
# programs
# ---------------------------------------------------------------------------------------------
KINDS: dict[str, dict] = {
    "i01": {"values": [0, 1], "cls": "", "c": "i", "txt": "int[0..1]", "dist": IntDistribution(0, 1)},
    "i02": {"values": [0, 1, 2], "cls": "", "c": "i", "txt": "int[0..2]", "dist": IntDistribution(0, 2)},
    "i04s2": {"values": [0, 2, 4], "cls": "", "c": "i", "txt": "int[0..4 step 2]", "dist": IntDistribution(0, 4, step=2)},
    "li14": {"values": [1, 2, 3, 4], "cls": "l", "c": "l", "txt": "logint[1..4]", "dist": IntDistribution(1, 4, log=True)},
    "cat": {"values": ["a", None], "cls": "c", "c": "c", "txt": "cat('a',None)", "dist": CategoricalDistribution(("a", None))},
    "f05": {"values": [0.0, 0.5, 1.0], "cls": "f", "c": "f", "txt": "float[0..1 step .5]", "dist": FloatDistribution(0.0, 1.0, step=0.5)},
    "i33": {"values": [3], "cls": "", "c": "i", "txt": "int[3..3]", "dist": IntDistribution(3, 3)},
    # decimal grid whose upper bound is not a binary fraction (the double nearest to 0.3 lies below it)
    "f03": {"values": [0.0, 0.1, 0.2, 0.3], "cls": "f", "c": "f", "txt": "float[0..0.3 step .1]", "dist": FloatDistribution(0.0, 0.3, step=0.1)},
}
FULL_ALPHABET = ("i01", "i02", "i04s2", "li14", "cat", "f05", "i33", "f03")
SMALL_ALPHABET = ("i01", "f05", "i33")


def suggest(trial: Any, name: str, kind: str) -> Any:
    if kind == "i01":
        return trial.suggest_int(name, 0, 1)
    if kind == "i02":
        return trial.suggest_int(name, 0, 2)
    if kind == "i04s2":
        return trial.suggest_int(name, 0, 4, step=2)
    if kind == "li14":
        return trial.suggest_int(name, 1, 4, log=True)
    if kind == "cat":
        return trial.suggest_categorical(name, ("a", None))
    if kind == "f05":
        return trial.suggest_float(name, 0.0, 1.0, step=0.5)
    if kind == "i33":
        return trial.suggest_int(name, 3, 3)
    if kind == "f03":
        return trial.suggest_float(name, 0.0, 0.3, step=0.1)
    raise AssertionError(kind)


def n_leaves(t: Any) -> int:
    return 1 if t is None else sum(n_leaves(c) for c in t[1])


def depth_of(t: Any) -> int:
    return 0 if t is None else 1 + max(depth_of(c) for c in t[1])


def subtrees(depth: int, max_leaves: int, alphabet: tuple) -> list:
    """All trees of depth <= depth with <= max_leaves leaves over the alphabet (children all equal,
    or the first differs)."""
    if depth == 0:
        return [None]
    sub = subtrees(depth - 1, max_leaves, alphabet)
    nl = [n_leaves(s) for s in sub]
    out: list = [None]
    for kind in alphabet:
        k = len(KINDS[kind]["values"])
        for s, ls in zip(sub, nl):
            if k * ls <= max_leaves:
                out.append((kind, (s,) * k))
        if k > 1:
            for a, la in zip(sub, nl):
                for s, ls in zip(sub, nl):
                    if a is not s and la + (k - 1) * ls <= max_leaves:
                        out.append((kind, (a,) + (s,) * (k - 1)))
    return out


def to_tuple(t: Any) -> Any:
    """JSON lists back to the hashable tuple form."""
    return None if t is None else (t[0], tuple(to_tuple(c) for c in t[1]))


def name_of(kind: str, depth: int, counts: dict, naming: str) -> str:
    if naming == "level":
        return f"p{depth}{KINDS[kind]['cls']}"
    c = KINDS[kind]["c"]
    return f"{c}{counts.get(c, 0)}"


def walk(t: Any, naming: str, stop_at: tuple | None = None):
    """Yield (path, combo, is_leaf) for every node: path = child indices, combo = ((name, value),...)."""
    stack = [(t, (), (), {})]
    while stack:
        node, path, combo, counts = stack.pop()
        if node is None or path == stop_at:
            yield path, combo, True
            continue
        yield path, combo, False
        kind, children = node
        name = name_of(kind, len(path), counts, naming)
        c2 = dict(counts)
        c2[KINDS[kind]["c"]] = c2.get(KINDS[kind]["c"], 0) + 1
        for i in reversed(range(len(children))):
            stack.append((children[i], path + (i,), combo + ((name, KINDS[kind]["values"][i]),), c2))


def leaves_of(t: Any, naming: str, stop_at: tuple | None = None) -> list:
    return [combo for _, combo, leaf in walk(t, naming, stop_at) if leaf]


def inner_paths(t: Any) -> list:
    return [path for path, _, leaf in walk(t, "level") if not leaf]


def name_partition(t: Any, naming: str) -> frozenset:
    groups: dict[str, set] = {}
    stack = [(t, (), {})]
    while stack:
        node, path, counts = stack.pop()
        if node is None:
            continue
        kind, children = node
        groups.setdefault(name_of(kind, len(path), counts, naming), set()).add(path)
        c2 = dict(counts)
        c2[KINDS[kind]["c"]] = c2.get(KINDS[kind]["c"], 0) + 1
        for i, ch in enumerate(children):
            stack.append((ch, path + (i,), c2))
    return frozenset(frozenset(g) for g in groups.values())


def namings_of(t: Any) -> list[str]:
    if t is None or name_partition(t, "level") == name_partition(t, "count"):
        return ["level"]
    return ["level", "count"]


def show(t: Any, naming: str = "level", depth: int = 0, counts: dict | None = None) -> Any:
    """Readable nested form of a program."""
    if t is None:
        return "LEAF"
    counts = counts or {}
    kind, children = t
    name = name_of(kind, depth, counts, naming)
    c2 = dict(counts)
    c2[KINDS[kind]["c"]] = c2.get(KINDS[kind]["c"], 0) + 1
    vals = KINDS[kind]["values"]
    head = f"{name} = {KINDS[kind]['txt']}"
    if all(ch == children[0] for ch in children):
        if children[0] is None:
            return head
        return {head: {"any": show(children[0], naming, depth + 1, c2)}}
    return {head: {repr(vals[0]): show(children[0], naming, depth + 1, c2),
                   "else": show(children[1], naming, depth + 1, c2)}}


# ---------------------------------------------------------------------------------------------
# storage
# ---------------------------------------------------------------------------------------------
class Store:
    def __init__(self, kind: str) -> None:
        self.kind = kind
        self.path = None
        if kind == "mem":
            self.storage = optuna.storages.InMemoryStorage()
        else:
            self.path = os.path.join(backends.root(), f"c14_{os.getpid()}_{next(backends._counter)}.log")
            self.storage = self._open()

    def _open(self) -> Any:
        from optuna.storages import JournalStorage
        from optuna.storages.journal import JournalFileBackend, JournalFileOpenLock

        return JournalStorage(JournalFileBackend(self.path, lock_obj=JournalFileOpenLock(self.path)))

    def reopen(self) -> Any:
        """journal: a brand-new storage object over the same file (a resumed process)."""
        if self.kind != "mem":
            self.storage = self._open()
        return self.storage

    def close(self) -> None:
        if self.path:
            for p in (self.path, self.path + ".lock"):
                try:
                    os.unlink(p)
                except OSError:
                    pass


# ---------------------------------------------------------------------------------------------
# one run
# ---------------------------------------------------------------------------------------------
class Objective:
    def __init__(self, body: Any, failure: list) -> None:
        self.body = body  # body(trial, self) -> combo, may raise Planned/TrialPruned itself (inner)
        self.failure = failure
        self.n = 0
        self.ki_at = -1
        self.in_body = False
        self.evals: list = []
        self.intended: list = []

    def __call__(self, trial: Any) -> float:
        self.in_body = True
        try:
            return self._call(trial)
        finally:
            self.in_body = False

    def _call(self, trial: Any) -> float:
        idx = self.n
        self.n += 1
        slot = len(self.intended)  # (aborted asks also occupy a slot: not the evaluation index)
        self.intended.append("FAIL")  # until the body is through (an escaping exception = FAIL)
        inner = self.body(trial, self)
        if idx == self.ki_at:
            raise KeyboardInterrupt()
        if inner is not None:
            self.intended[slot] = "PRUNED" if inner == "prune" else "FAIL"
            raise (optuna.TrialPruned() if inner == "prune" else Planned("inner"))
        if self.failure[0] == "fail" and self.failure[1] == idx:
            raise Planned("leaf")
        if self.failure[0] == "prune" and self.failure[1] == idx:
            self.intended[slot] = "PRUNED"
            raise optuna.TrialPruned()
        self.intended[slot] = "COMPLETE"
        return float(idx)


def arm_write_fault(storage: Any, obj: Objective, at: int, j: int) -> None:
    """Ctrl-C landing inside ask(): KeyboardInterrupt before the j-th system-attr write that the
    sampler issues for the trial following evaluation `at` (outside the objective). The aborted
    trial is no evaluation; it must end FAIL and the run, once resumed, must still visit every
    cell exactly once and stop."""
    orig = storage.set_trial_system_attr
    st = {"count": 0, "done": False}

    def wrapper(trial_id: int, key: str, value: Any) -> None:
        if not st["done"] and obj.n == at and not obj.in_body:
            st["count"] += 1
            if st["count"] == j:
                st["done"] = True
                obj.intended.append("FAIL")
                storage.set_trial_system_attr = orig
                raise KeyboardInterrupt()
        return orig(trial_id, key, value)

    storage.set_trial_system_attr = wrapper


def drive(case: dict, store: Store, make_sampler: Any, obj: Objective, total: int, prepare: Any) -> dict:
    """Run the schedule of optimize() calls. total = number of evaluations expected until the
    sampler stops by itself."""
    fresh = store.kind != "mem"
    study = optuna.create_study(storage=store.storage, sampler=make_sampler(), study_name="c14")
    prepare(study, "start")
    calls = []
    problem = None
    sched = [tuple(c) for c in case["cuts"]] + [(None, "final")]
    for ci, (pos, typ) in enumerate(sched):
        before = obj.n
        if ci > 0 and fresh:
            study = optuna.load_study(study_name="c14", storage=store.reopen(), sampler=make_sampler())
        if typ == "final":
            prepare(study, "last")
        n_trials = pos - before if typ == "n" else total + 3
        obj.ki_at = pos - 1 if typ == "ki" else -1
        if typ.startswith("kw"):
            arm_write_fault(study._storage, obj, pos - 1, int(typ[2:]))
        try:
            study.optimize(obj, n_trials=n_trials, catch=(Planned,))
            ended = "returned"
        except KeyboardInterrupt:
            ended = "KeyboardInterrupt"
        except Exception as e:  # noqa: BLE001 - the observation
            ended = f"raised:{type(e).__name__}"
            calls.append({"call": ci, "kind": typ, "n_trials": n_trials, "ran": obj.n - before, "ended": ended,
                          "error": repr(e)[:200]})
            problem = f"optimize-raised:{type(e).__name__}"
            break
        ran = obj.n - before
        calls.append({"call": ci, "kind": typ, "n_trials": n_trials, "ran": ran, "ended": ended})
        if typ == "n":
            if ended != "returned" or ran != n_trials:
                problem = "stopped-before-exhaustion" if ended == "returned" else f"unexpected-{ended}"
                break
        elif typ == "ki":
            if ended != "KeyboardInterrupt":
                problem = "stopped-before-exhaustion" if ran < pos - before else "keyboardinterrupt-swallowed"
                break
        elif typ.startswith("kw"):
            if ended != "KeyboardInterrupt":
                problem = "stopped-before-exhaustion" if ran < pos - 1 - before else "keyboardinterrupt-swallowed"
                break
        else:
            if ended != "returned":
                problem = f"unexpected-{ended}"
            elif ran >= n_trials:
                problem = "did-not-stop"
    states = [t.state.name for t in study.get_trials(deepcopy=False)]
    return {"calls": calls, "problem": problem, "states": states}


def fclass(failure: list) -> str:
    return failure[0] if failure[0] != "inner" else f"inner-{failure[2]}"


def variant_class(case: dict) -> str:
    cuts = case["cuts"]
    s = f"failure={fclass(case['failure'])} split={len(cuts) + 1}"
    if any(t == "ki" for _, t in cuts):
        s += "+ki"
    if any(t.startswith("kw") for _, t in cuts):
        s += "+interrupt-in-ask"
    if case["sampler"] == "bruteforce":
        s += f" aps={'T' if case['aps'] else 'F'}"
    pre = case["pre"]
    s += f" pre={pre if isinstance(pre, str) else pre[0]} storage={case['storage']}"
    return s


def judge(case: dict, res: dict, obj: Objective, exactly_once: list, at_most_once: list,
          pre_states: list) -> list[tuple[str, dict]]:
    """Compare with the oracle. Returns [(clause, details)]."""
    out: list[tuple[str, dict]] = []
    got = collections.Counter(obj.evals)
    if res["problem"]:
        out.append((res["problem"], {}))
    want = collections.Counter(exactly_once)
    twice, alien = [], []
    for k, v in got.items():
        if k in want:
            if v > want[k]:
                twice.append(list(k))
        elif k in at_most_once:
            if v > 1:
                twice.append(list(k))
        else:
            alien.append(list(k))
    never = [list(k) for k, v in want.items() if got.get(k, 0) < v]
    word = "leaf" if case["sampler"] == "bruteforce" else "cell"
    # a run that raised / was cut short is reported by its cause; missing leaves are a consequence
    if twice:
        out.append((f"{word}-evaluated-twice", {"combinations": twice}))
    if never and not (res["problem"] or "").startswith(("optimize-raised", "unexpected")):
        out.append((f"{word}-never-evaluated", {"combinations": never}))
    if alien:
        out.append(("unreachable-combination-evaluated", {"combinations": alien}))
    if not res["problem"] or res["problem"] in ("did-not-stop", "stopped-before-exhaustion"):
        want_states = pre_states + obj.intended
        if res["states"] != want_states:
            out.append(("trial-states-differ", {"expected_states": want_states, "observed_states": res["states"]}))
    return out


# -- brute force -------------------------------------------------------------------------------
def run_bf(case: dict) -> tuple[list, dict, int]:
    prog = to_tuple(case["program"])
    naming = case["naming"]
    failure = case["failure"]
    stop_at = tuple(failure[1]) if failure[0] == "inner" else None
    leaves = leaves_of(prog, naming, stop_at)
    pre = case["pre"]
    at_most: list = []
    exactly = leaves
    total = len(leaves)
    pre_states: list = []
    stale_combo = None
    if pre != "none":
        spath = tuple(pre[1])
        stale_combo = [c for p, c, _ in walk(prog, naming) if p == spath][0]
        pre_states = ["RUNNING"]
        if not case["aps"]:
            below = [c for c in leaves if c[: len(stale_combo)] == stale_combo]
            exactly = [c for c in leaves if c not in below]
            at_most = below
            total = len(exactly)  # at least; the final call is the only call

    def body(trial: Any, o: Objective) -> Any:
        node, path, combo, counts = prog, (), (), {}
        while node is not None:
            if path == stop_at:
                o.evals.append(combo)
                return failure[2]
            kind, children = node
            name = name_of(kind, len(path), counts, naming)
            v = suggest(trial, name, kind)
            vals = KINDS[kind]["values"]
            # (BruteForceSampler hands out numpy scalars for floats: compare by value)
            hit = [i for i, w in enumerate(vals) if (w is None and v is None) or
                   (w is not None and v is not None and isinstance(v, str) == isinstance(w, str)
                    and not isinstance(v, bool) and v == w)]
            if not hit:
                raise OutOfDomain(f"{name}={v!r} not in {vals!r}")
            i = hit[0]
            counts = dict(counts)
            counts[KINDS[kind]["c"]] = counts.get(KINDS[kind]["c"], 0) + 1
            combo = combo + ((name, vals[i]),)
            path = path + (i,)
            node = children[i]
        o.evals.append(combo)
        return None

    def prepare(study: Any, when: str) -> None:
        if when == "start" and stale_combo is not None:
            names_kinds = {}
            node, counts = prog, {}
            for d, i in enumerate(spath):
                kind, children = node
                names_kinds[name_of(kind, d, counts, naming)] = kind
                counts = dict(counts)
                counts[KINDS[kind]["c"]] = counts.get(KINDS[kind]["c"], 0) + 1
                node = children[i]
            study.add_trial(optuna.trial.create_trial(
                state=TrialState.RUNNING, params=dict(stale_combo),
                distributions={n: KINDS[k]["dist"] for n, k in names_kinds.items()}))

    obj = Objective(body, failure)
    store = Store(case["storage"])
    try:
        res = drive(case, store, lambda: optuna.samplers.BruteForceSampler(
            seed=case["seed"], avoid_premature_stop=case["aps"]), obj, total + len(at_most), prepare)
    finally:
        store.close()
    findings = judge(case, res, obj, exactly, at_most, pre_states)
    info = {"reachable_leaves": [list(c) for c in leaves], "evaluated_in_order": [list(c) for c in obj.evals],
            "optimize_calls": res["calls"]}
    return findings, info, obj.n


# -- grid ---------------------------------------------------------------------------------------
POOL = [None, True, NAN, 0.5, "a", False, 2, ""]


def grid_of(shape: list, theme: int) -> dict:
    g = {}
    for j, n in enumerate(shape):
        g[f"g{j}"] = [POOL[(theme + 3 * j + i) % len(POOL)] for i in range(n)]
    return g


def is_numeric(vals: list) -> bool:
    # (nan under suggest_float is rejected by FloatDistribution.to_internal_repr: "`nan` is invalid
    # value"; nan is a legal categorical choice and GridSampler compares it specially)
    return all(isinstance(v, (int, float)) and not isinstance(v, bool) and not math.isnan(v) for v in vals)


def vkey(v: Any) -> str:
    return repr(v)  # nan -> 'nan'; True / 1 / 1.0 stay distinct


def run_grid(case: dict) -> tuple[list, dict, int]:
    grid = grid_of(case["shape"], case["theme"])
    names = list(grid)
    failure = case["failure"]
    stop_k = failure[1] if failure[0] == "inner" else None
    cells = [tuple(zip(names, combo)) for combo in itertools.product(*grid.values())]

    def proj(cell: tuple) -> tuple:
        c = cell if stop_k is None else cell[:stop_k]
        return tuple((n, vkey(v)) for n, v in c)

    expected = [proj(c) for c in cells]
    pre = case["pre"]
    # the combination used for pre-existing trials: a grid cell, avoiding nan where possible
    fixed = {n: ([v for v in vals if not (isinstance(v, float) and math.isnan(v))] or vals)[-1]
             for n, vals in grid.items()}
    dists = {n: (FloatDistribution(-10.0, 10.0) if is_numeric(vals) else CategoricalDistribution(tuple(vals)))
             for n, vals in grid.items()}
    n_added = {"none": 0, "add1": 1, "add2": 2}.get(pre, 0)
    if pre in ("enq-start", "enq-last"):
        expected = expected + [proj(tuple(fixed.items()))]

    def body(trial: Any, o: Objective) -> Any:
        combo: tuple = ()
        for k, n in enumerate(names):
            if k == stop_k:
                o.evals.append(combo)
                return failure[2]
            vals = grid[n]
            if is_numeric(vals):
                v = trial.suggest_float(n, -10.0, 10.0)
            else:
                v = trial.suggest_categorical(n, tuple(vals))
            combo = combo + ((n, vkey(v)),)
        o.evals.append(combo)
        return None

    def prepare(study: Any, when: str) -> None:
        if when == "start":
            for i in range(n_added):
                study.add_trial(optuna.trial.create_trial(params=dict(fixed), distributions=dict(dists), value=float(i)))
            if pre == "enq-start":
                study.enqueue_trial(dict(fixed))
        if when == "last" and pre == "enq-last":
            study.enqueue_trial(dict(fixed))

    obj = Objective(body, failure)
    store = Store(case["storage"])
    try:
        res = drive(case, store, lambda: optuna.samplers.GridSampler(grid, seed=case["seed"]), obj,
                    len(expected), prepare)
    finally:
        store.close()
    pre_states = ["COMPLETE"] * n_added
    findings = judge(case, res, obj, expected, [], pre_states)
    info = {"grid": {n: [vkey(v) for v in vals] for n, vals in grid.items()},
            "pre_existing": None if pre == "none" else {"kind": pre, "params": {n: vkey(v) for n, v in fixed.items()}},
            "expected_multiset": sorted(map(repr, expected)), "evaluated_in_order": [list(c) for c in obj.evals],
            "optimize_calls": res["calls"]}
    return findings, info, obj.n


# ---------------------------------------------------------------------------------------------
# variant plans
# ---------------------------------------------------------------------------------------------
def schedules(total: int, max_cuts: int, positions: list | None = None, ki: bool = True) -> list[list]:
    """All runs as 1..max_cuts+1 optimize calls. A cut at position c (1 <= c <= total-1 evaluations
    done) ends a call before exhaustion, either by n_trials ("n") or, with ki, by a
    KeyboardInterrupt in evaluation c-1 ("ki", at most one per run)."""
    pos = [c for c in (positions if positions is not None else range(1, total)) if 1 <= c <= total - 1]
    pos = sorted(set(pos))
    out: list[list] = [[]]
    if max_cuts >= 1:
        for c in pos:
            out += [[[c, "n"]], [[c, "ki"]]] if ki else [[[c, "n"]]]
    if max_cuts >= 2:
        for a, b in itertools.combinations(pos, 2):
            out += [[[a, "n"], [b, "n"]]]
            if ki:
                out += [[[a, "ki"], [b, "n"]], [[a, "n"], [b, "ki"]]]
    return out


def failures_bf(prog: Any, total: int) -> list[list]:
    fs: list[list] = [["none"]]
    for i in range(min(3, total)):
        fs += [["fail", i], ["prune", i]]
    return fs


def plan_bf(prog: Any, naming: str, level: str) -> list[dict]:
    """Variant plans (every listed combination is run; nothing is sampled). "Leaf failure patterns"
    = none, evaluation i in {0,1,2} fails / is pruned after its suggests; "inner" = deterministic
    raise (caught exception | TrialPruned) at an inner node, for every inner node. A schedule = cut
    positions x cut types (n_trials "n" or KeyboardInterrupt "ki"); "edge" = positions
    {1, total-2, total-1}.
    'full'  (thorough, depth <= 2), aps=F:
              seed 0 x leaf failure patterns x every schedule with <= 2 cuts (KeyboardInterrupt
              cuts inside 2-cut schedules only for {none, evaluation 1 fails, evaluation 0 pruned});
              otherwise (seed 0 x inner, seeds 1,2 x leaf + inner): every 1-cut schedule and the
              2-cut n-only schedules over edge;
            aps=T: seed 0 x leaf failure patterns x every n-only schedule with <= 1 cut; seeds 1,2 x
              leaf failure patterns uncut;
            stale RUNNING trial at every node x seeds x aps (seed 0 also with evaluation 1 failing).
    'quick' (quick, depth <= 2), aps=F:
              seed 0 x leaf failure patterns x every schedule with <= 1 cut;
              seed 0 x inner x every n-only schedule with <= 1 cut;
              seed 0 x {none, evaluation 1 fails, evaluation 0 pruned} x 2-cut schedules over edge;
              seeds 1,2 x (leaf failure patterns uncut, none x every 1-cut n-only schedule);
            aps=T: seeds x {none, evaluation 1 fails} uncut, seed 0 x none x 1-cut n-only;
            stale RUNNING trial at every node x (seed 0 x aps F,T | seeds 1,2 x aps=T).
    'deep'  (thorough, depth 3, names per level), aps=F:
              seed 0 x none x every schedule with <= 1 cut;
              seed 0 x other leaf failure patterns x {uncut, n-cut at 1, ki-cut at total-1};
              seed 0 x inner caught raises uncut; seeds 1,2 x {none, evaluation 1 fails} uncut;
            aps=T: seed 0 plain; stale RUNNING trial at every node (seed 0; aps=F at inner nodes).
    'names' (thorough, depth 3, names re-used across depths; the tree shapes are already covered
            with names per level): seeds {0,1,2} plain; seed 0 x {evaluation 1 fails x cut at 1,
            evaluation 0 pruned, inner caught raises}; stale RUNNING trial at every inner node
            (seed 0, aps=T)."""
    L = n_leaves(prog)
    cases: list[dict] = []

    def add(seed: int, aps: bool, failure: list, cuts: list, pre: Any = "none", storage: str = "mem") -> None:
        cases.append({"sampler": "bruteforce", "program": prog, "naming": naming, "seed": seed, "aps": aps,
                      "failure": failure, "cuts": cuts, "pre": pre, "storage": storage})

    def two(scheds: list) -> list:
        return [c for c in scheds if len(c) == 2]

    leaff = [(f, L) for f in failures_bf(prog, L)]
    inner = [(["inner", list(p), k], len(leaves_of(prog, naming, p))) for p in inner_paths(prog)
             for k in ("fail", "prune")]
    walked = list(walk(prog, naming))
    nodes = [list(path) for path, _, _ in walked]
    inner_nodes = [list(path) for path, _, leaf in walked if not leaf]
    if level == "full":
        for seed in (0, 1, 2):
            for f, tot in leaff + inner:
                if seed == 0 and f in (["none"], ["fail", 1], ["prune", 0]):
                    scheds = schedules(tot, 2)
                elif seed == 0 and f[0] != "inner":
                    scheds = schedules(tot, 1) + two(schedules(tot, 2, ki=False))
                else:
                    scheds = schedules(tot, 1) + two(schedules(tot, 2, [1, tot - 2, tot - 1], ki=False))
                for cuts in scheds:
                    add(seed, False, f, cuts)
            for f, tot in leaff:
                for cuts in schedules(tot, 1, ki=False) if seed == 0 else [[]]:
                    add(seed, True, f, cuts)
            for aps in (False, True):
                for path in nodes:
                    add(seed, aps, ["none"], [], ["stale", path])
                    if L >= 2 and seed == 0:
                        add(seed, aps, ["fail", 1], [], ["stale", path])
    elif level == "quick":
        for f, tot in leaff:
            for cuts in schedules(tot, 1):
                add(0, False, f, cuts)
            if f in (["none"], ["fail", 1], ["prune", 0]):
                for cuts in two(schedules(tot, 2, [1, tot - 2, tot - 1])):
                    add(0, False, f, cuts)
        for f, tot in inner:
            for cuts in schedules(tot, 1, ki=False):
                add(0, False, f, cuts)
        for seed in (1, 2):
            for f, tot in leaff:
                add(seed, False, f, [])
            for cuts in schedules(L, 1, ki=False)[1:]:
                add(seed, False, ["none"], cuts)
        for seed in (0, 1, 2):
            add(seed, True, ["none"], [])
            if L >= 2:
                add(seed, True, ["fail", 1], [])
            for path in nodes:
                add(seed, True, ["none"], [], ["stale", path])
        for cuts in schedules(L, 1, ki=False)[1:]:
            add(0, True, ["none"], cuts)
        for path in nodes:
            add(0, False, ["none"], [], ["stale", path])
    elif level == "deep":
        for cuts in schedules(L, 1):
            add(0, False, ["none"], cuts)
        for f, tot in leaff[1:]:
            add(0, False, f, [])
            if L >= 2:
                add(0, False, f, [[1, "n"]])
            if L >= 3:
                add(0, False, f, [[L - 1, "ki"]])
        for f, tot in inner:
            if f[2] == "fail":
                add(0, False, f, [])
        for seed in (1, 2):
            add(seed, False, ["none"], [])
            if L >= 2:
                add(seed, False, ["fail", 1], [])
        add(0, True, ["none"], [])
        for path in nodes:
            add(0, True, ["none"], [], ["stale", path])
        for path in inner_nodes:
            add(0, False, ["none"], [], ["stale", path])
    else:
        for seed in (0, 1, 2):
            add(seed, False, ["none"], [])
        if L >= 3:
            add(0, False, ["fail", 1], [[1, "n"]])
        add(0, False, ["prune", 0], [])
        for f, tot in inner:
            if f[2] == "fail":
                add(0, False, f, [])
        for path in inner_nodes:
            add(0, True, ["none"], [], ["stale", path])
    return cases


def plan_bf_journal(prog: Any, naming: str) -> list[dict]:
    """JournalStorage subset: seed 0 x (leaf failure patterns + inner caught raises) x schedules
    with <= 2 cuts over the positions {1, 2, total-1} (KeyboardInterrupt only in 1-cut schedules).
    Every resumed call uses new storage / study / sampler objects."""
    L = n_leaves(prog)
    cases = []
    for f in failures_bf(prog, L) + [["inner", list(p), "fail"] for p in inner_paths(prog)]:
        tot = L if f[0] != "inner" else len(leaves_of(prog, naming, tuple(f[1])))
        pos = [1, 2, tot - 1]
        for cuts in schedules(tot, 1, pos) + [c for c in schedules(tot, 2, pos, ki=False) if len(c) == 2]:
            cases.append({"sampler": "bruteforce", "program": prog, "naming": naming, "seed": 0,
                          "aps": False, "failure": f, "cuts": cuts, "pre": "none", "storage": "journal"})
    return cases


def grid_positions(total: int) -> list[int]:
    if total <= 9:
        return list(range(1, total))
    return [1, 2, total // 2, total - 2, total - 1]


PRES = ("none", "add1", "add2", "enq-start", "enq-last")


def plan_grid(shape: list, theme: int, level: str, storage: str = "mem") -> list[dict]:
    """Variant plans for one grid. Failure patterns = none, evaluation i in {0,1,2} fails / is
    pruned, deterministic raise (caught | TrialPruned) before suggesting parameter k (every k).
    Cut positions: every position for <= 9 evaluations, else {1, 2, total/2, total-2, total-1}.
    'full'   (thorough, value theme 0): seeds {0,1,2} x 5 kinds of pre-existing trials x all failure
             patterns x every schedule with <= 1 cut (without pre-existing trials: <= 2 cuts).
    'thin'   (quick, value theme 0): seeds {0,1} x all failure patterns x every schedule with <= 1
             cut; with pre-existing trials: leaf failure patterns x <= 1 cut at {1, total-1}.
    'values' (value themes 1..7, and the JournalStorage subset): seeds {0,1} x {plain, evaluation 1
             fails + n-cut at 1, evaluation 0 pruned + ki-cut at total-1} x {none, add1,
             enq-start}, and enq-last after an n-cut at 1."""
    ncell = 1
    for n in shape:
        ncell *= n
    cases: list[dict] = []
    lone_nan = any(all(isinstance(v, float) and math.isnan(v) for v in vals) for vals in grid_of(shape, theme).values())

    def add(seed: int, failure: list, cuts: list, pre: str) -> None:
        if pre.startswith("enq") and not shape:
            return  # nothing to enqueue for the empty grid
        if pre.startswith("enq") and lone_nan:
            # a fixed nan only matches a categorical choice by object identity, which an enqueued
            # value does not keep through a storage: not a sampler matter, not exercised
            return
        if pre == "enq-last":
            # the enqueued trial is the first evaluation of the last call: cuts lie before it
            if not cuts or any(c >= ncell for c, _ in cuts):
                return
        cases.append({"sampler": "grid", "shape": list(shape), "theme": theme, "seed": seed, "failure": failure,
                      "cuts": cuts, "pre": pre, "storage": storage})

    if level == "values":
        for seed in (0, 1):
            for pre in ("none", "add1", "enq-start"):
                total = ncell + (1 if pre.startswith("enq") else 0)
                add(seed, ["none"], [], pre)
                if total >= 2:
                    add(seed, ["fail", 1], [[1, "n"]], pre)
                if total >= 3:
                    add(seed, ["prune", 0], [[total - 1, "ki"]], pre)
            if ncell >= 2:
                add(seed, ["none"], [[1, "n"]], "enq-last")
        return cases
    fs: list[list] = [["none"]]
    for i in range(min(3, ncell)):
        fs += [["fail", i], ["prune", i]]
    fs += [["inner", k, kind] for k in range(len(shape)) for kind in ("fail", "prune")]
    seeds = (0, 1, 2) if level == "full" else (0, 1)
    for seed in seeds:
        for pre in PRES:
            total = ncell + (1 if pre.startswith("enq") else 0)
            for f in fs:
                if level == "full" and pre == "none":
                    scheds = schedules(total, 2, grid_positions(total))
                elif level == "full" or pre == "none":
                    scheds = schedules(total, 1, grid_positions(total))
                else:
                    scheds = schedules(total, 1, [1, total - 1])
                if f[0] == "inner" and pre != "none" and level != "full":
                    continue
                for cuts in scheds:
                    add(seed, f, cuts, pre)
        # Ctrl-C inside ask() (before each of the sampler's two system-attr writes of a trial)
        for pos in sorted(set(grid_positions(ncell)) | {1, ncell}):
            for j in (1, 2):
                add(seed, ["none"], [[pos, f"kw{j}"]], "none")
    return cases


# ---------------------------------------------------------------------------------------------
# workers
# ---------------------------------------------------------------------------------------------
def run_case(case: dict) -> tuple[list, dict, int]:
    return run_bf(case) if case["sampler"] == "bruteforce" else run_grid(case)


def report(part: Part, case: dict, findings: list, info: dict) -> None:
    for clause, details in findings:
        if clause.startswith("optimize-raised"):
            # a crash is one finding per kind of pre-existing trial, whatever the failure pattern / split
            pre = case["pre"] if isinstance(case["pre"], str) else case["pre"][0]
            key = f"{case['sampler']}|{clause}|pre={pre}"
        else:
            key = f"{case['sampler']}|{clause}|{variant_class(case)}"
        rep = {"case": case}
        if case["sampler"] == "bruteforce":
            rep["program_readable"] = show(to_tuple(case["program"]), case["naming"])
        rep.update(details)
        rep.update(info)
        part.violation(key, rep)


def bf_worker(task: tuple) -> dict:
    backends.setup_determinism()
    level, items = task
    part = Part()
    for prog, journal in items:
        part.add("states")
        part.add("programs_bruteforce")
        part.setmax("max_leaves", n_leaves(prog))
        part.setmax("max_depth", depth_of(prog))
        for naming in namings_of(prog):
            cases = plan_bf(prog, naming, level if naming == "level" else "names")
            if naming == "level":
                part.add(f"programs_with_plan_{level}")
            if journal:
                cases += plan_bf_journal(prog, naming)
            if naming == "count":
                part.add("programs_run_with_names_reused_across_depths")
            for case in cases:
                findings, info, n = run_case(case)
                part.add("evaluations")
                part.add("runs_bruteforce")
                if case["storage"] != "mem":
                    part.add("runs_on_journal_file")
                part.add("transitions", n)
                part.add("traces_validated_against_impl", len(info["optimize_calls"]))
                report(part, case, findings, info)
        if depth_of(prog) >= 2 and n_leaves(prog) >= 4:
            part.sample({"sampler": "bruteforce", "program": show(prog), "leaves": n_leaves(prog),
                         "plan": level, "runs": len(plan_bf(prog, "level", level))}, cap=1)
    return part.out()


def grid_worker(task: tuple) -> dict:
    backends.setup_determinism()
    (items,) = task
    part = Part()
    for shape, theme, level, journal in items:
        part.add("states")
        part.add("grids")
        cases = plan_grid(shape, theme, level)
        if journal:
            cases += plan_grid(shape, theme, "values", "journal")
        for case in cases:
            findings, info, n = run_case(case)
            part.add("evaluations")
            part.add("runs_grid")
            if case["storage"] != "mem":
                part.add("runs_on_journal_file")
            part.add("transitions", n)
            part.add("traces_validated_against_impl", len(info["optimize_calls"]))
            report(part, case, findings, info)
        if len(shape) == 2 and theme in (0, 2):
            part.sample({"sampler": "grid", "grid": {n: [vkey(v) for v in vals] for n, vals in grid_of(shape, theme).items()},
                         "runs": len(cases)}, cap=1)
    return part.out()


def worker(task: tuple) -> dict:
    return bf_worker(task[1:]) if task[0] == "bf" else grid_worker(task[1:])


def deal(items: list, cost: Any, n: int) -> list[list]:
    """Greedy balance of items into n bins by estimated cost."""
    bins: list[list] = [[] for _ in range(n)]
    load = [0.0] * n
    for it in sorted(items, key=cost, reverse=True):
        i = load.index(min(load))
        bins[i].append(it)
        load[i] += cost(it)
    return [b for b in bins if b]


def run(tier: str, replay: str | None = None) -> int:
    backends.setup_determinism()
    ctx = Ctx(PID, tier, "model_checking")
    if replay is not None:
        rep = json.load(open(replay))
        findings, info, _ = run_case(rep["case"])
        print(json.dumps({"findings": [f[0] for f in findings], **info}, indent=1, default=repr))
        return 1 if findings else 0

    tasks: list[tuple] = []
    if tier == "quick":
        progs = subtrees(2, 9, FULL_ALPHABET)
        items = [(p, i % 16 == 5) for i, p in enumerate(progs)]
        for b in deal(items, lambda it: n_leaves(it[0]) ** 3 * (2 if it[1] else 1) + 20, 150):
            tasks.append(("bf", "quick", b))
        rule_bf = (f"{len(progs)} programs = all trees of depth <= 2 with <= 9 leaves over 7 domains, variant plan "
                   "'quick' (see plan_bf)")
        grid_level = "thin"
    else:
        progs = subtrees(2, 12, FULL_ALPHABET)
        items = [(p, i % 8 == 5) for i, p in enumerate(progs)]
        for b in deal(items, lambda it: n_leaves(it[0]) ** 4 + 50, 130):
            tasks.append(("bf", "full", b))
        seen = set(progs)
        deep = [p for p in subtrees(3, 12, SMALL_ALPHABET) if p not in seen]
        assert all(depth_of(p) == 3 for p in deep)
        for b in deal([(p, i % 64 == 5) for i, p in enumerate(deep)], lambda it: n_leaves(it[0]) ** 3 + 50, 130):
            tasks.append(("bf", "deep", b))
        rule_bf = (f"{len(progs)} programs = all trees of depth <= 2 with <= 12 leaves over 7 domains with variant plan "
                   f"'full', plus {len(deep)} programs = all trees of depth exactly 3 with <= 12 leaves over the 3 domains "
                   "{i01, f05, i33} with variant plan 'deep' (names per level) and 'names' (names re-used across depths)")
        grid_level = "full"
    shapes = [list(s) for k in (1, 2, 3) for s in itertools.product((1, 2, 3), repeat=k)]
    gitems = [(s, th, grid_level if th == 0 else "values", si % 6 == 0)
              for si, s in enumerate(shapes) for th in range(len(POOL))]
    gitems.append(([], 0, grid_level, True))

    def gcost(it: tuple) -> float:
        n = 1
        for x in it[0]:
            n *= x
        return (n * n + 5) * (1 if it[2] == "values" else 25 if it[2] == "thin" else 120)

    for b in deal(gitems, gcost, 48 if tier == "quick" else 100):
        tasks.append(("grid", b))
    pmap(ctx, worker, tasks)
    ctx.cov["tasks"] = len(tasks)
    ctx.assumptions += [
        "sequential optimize() (n_jobs=1) in one process; the objective is a deterministic function of the suggested values",
        "failed / pruned / interrupted evaluations count as the one evaluation of their point: both samplers treat every finished trial (any state) as visited and never retry (read from _populate_tree and _get_unvisited_grid_ids)",
        "failures are planned after all suggests of an evaluation, or deterministically at an inner node (which then is a leaf of the effective program); a one-off failure between two suggests is outside the documented contract of BruteForceSampler and not exercised",
        "every non-final optimize call ends before exhaustion; calling optimize on an exhausted study is not demanded anything",
        "stale RUNNING trial with avoid_premature_stop=False: only 'at most once' is demanded for leaves below the stale node (documented looser criterion)",
        "a resumed run uses the same seed; on JournalStorage every resumed call uses new storage, study and sampler objects",
        "grid values within one parameter are distinct under repr; an enqueued trial specifies all parameters",
        "InMemoryStorage, and JournalStorage(JournalFileBackend in /dev/shm) for a subset of programs and grids",
    ]
    return ctx.finish(
        exhaustive=True,
        rule=f"BruteForceSampler: {rule_bf}; names per level and, where different, per class count. GridSampler: "
             f"{len(gitems)} grids = 39 shapes (<= 3 parameters x <= 3 values) x 8 value themes + the empty grid; value "
             f"theme 0 with plan '{grid_level}' (seeds x failure patterns x schedules x 5 kinds of pre-existing trials), "
             "themes 1-7 with plan 'values' (see plan_grid). Oracle: multiset of "
             "evaluated combinations == reachable leaves / cells, each once; every cut call runs exactly its n_trials; the "
             "last call returns by itself with fewer than leaves+3 trials.",
    )


if __name__ == "__main__":
    main_wrapper(run)
