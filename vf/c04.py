"""C04 - a queued trial is handed to exactly one worker, with its fixed parameters.

thx: every sequential prefix history (BFS over enqueue / ask / tell / add finished / add WAITING)
that leaves 1-2 queued trials is followed by a concurrent phase: 2-3 workers call study.ask() and
the matching suggest (optionally one worker enqueues concurrently), all interleavings up to the
preemption bound, scheduling points at every source line of optuna/study/study.py and of the
storage-layer file. Workers are threads sharing one Study ("optimize n_jobs") or separate
Study/JournalStorage objects over one shared journal ("processes").
"""
from __future__ import annotations

import importlib
import itertools
import os
from typing import Any

import optuna
from optuna.storages import JournalStorage
from optuna.trial import TrialState

from . import backends, thx
from .backends import Env, ListBackend
from .core import Ctx, InternalError, Part, main_wrapper, pmap
from .explore import Chooser, explore

PID = "C04"

CONFIGS = {
    "mem": ["optuna.storages._in_memory", "optuna.study.study"],
    "jlist": ["optuna.storages.journal._storage", "optuna.study.study"],
    "jlist-procs": ["optuna.storages.journal._storage"],
    # worker processes forked from one parent: their storages are pickled copies of the parent's and
    # their main threads have one and the same thread ident
    "jlist-forked": ["optuna.storages.journal._storage"],
    "cached": ["optuna.storages._cached_storage", "optuna.study.study"],
    "grpc(mem)": ["optuna.storages._grpc.client", "optuna.study.study"],
}

PREFIX_OPS = ["enq", "ask", "tell", "add_done", "add_wait", "peek"]


def fixed_value(k: int) -> float:
    return [0.125, 0.625, 0.375, 0.875][k % 4]


# a second, categorical parameter whose legal choices include None and 0 (falsy values that a
# "is it fixed?" test written with .get()/truthiness loses)
CATS = (None, "a", 0)


def fixed_cat(k: int) -> Any:
    return CATS[k % 3]


def fixed_pair(k: int) -> tuple:
    return (fixed_value(k), fixed_cat(k))


def suggest_both(t: Any) -> tuple:
    return (t.suggest_float("x", 0, 1), t.suggest_categorical("c", CATS))


class World:
    def __init__(self, config: str, n_workers: int, offset: bool = False) -> None:
        self.config = config
        base = "jlist" if config.startswith("jlist") else config
        self.env = Env(base)
        self.storages = [self.env.storage]
        if offset:
            # another study with trials lives in the same storage: ids != numbers, cursors must be per study
            other = optuna.create_study(storage=self.env.storage, study_name="other", sampler=optuna.samplers.RandomSampler(seed=7))
            other.enqueue_trial({"x": 0.5})
            other.optimize(lambda t: t.suggest_float("x", 0, 1), n_trials=2)
            other.enqueue_trial({"x": 0.75})
        self.study = optuna.create_study(storage=self.env.storage, study_name="c04",
                                         sampler=optuna.samplers.RandomSampler(seed=0))
        self.studies = [self.study]
        self.n_enq = 0
        self.queued: dict[int, tuple] = {}  # trial number -> (fixed value, user attrs)
        self.asked: list = []
        self.prefix_bad: list = []
        self.worker_storages: list = []
        self.prefix_claimed: set = set()

    def worker_studies(self, n: int) -> list:
        if self.config == "jlist-forked":
            import pickle

            backends._LIST_SHARED.clear()
            blob = pickle.dumps(self.env.storage)
            out = []
            for _ in range(n):
                st = pickle.loads(blob)
                out.append(optuna.load_study(study_name="c04", storage=st, sampler=optuna.samplers.RandomSampler(seed=0)))
                self.storages.append(st)
                self.worker_storages.append(st)
            return out
        if self.config == "jlist-procs":
            out = []
            for _ in range(n):
                st = JournalStorage(ListBackend(self.env._shared))
                out.append(optuna.load_study(study_name="c04", storage=st, sampler=optuna.samplers.RandomSampler(seed=0)))
                self.storages.append(st)
                self.worker_storages.append(st)
            return out
        return [self.study] * n

    def enqueue(self, study: Any = None) -> None:
        k = self.n_enq
        self.n_enq += 1
        params, attrs = {"x": fixed_value(k), "c": fixed_cat(k)}, {"q": k}
        (study or self.study).enqueue_trial(params, user_attrs=attrs)
        # the caller goes on using its own dicts (next variant of a base configuration ...): what
        # was queued must not change with them
        params["x"] = 0.03125
        params["c"] = "a" if params["c"] != "a" else 0
        params["junk"] = 1
        attrs["q"] = -1

    def apply_prefix(self, op: str) -> bool:
        s = self.study
        if op == "enq":
            before = len(s.get_trials(deepcopy=False))
            self.enqueue()
            self.queued[before] = (fixed_pair(self.n_enq - 1), {"q": self.n_enq - 1})
        elif op == "add_wait":
            k = self.n_enq
            self.n_enq += 1
            before = len(s.get_trials(deepcopy=False))
            sysattrs, attrs = {"fixed_params": {"x": fixed_value(k), "c": fixed_cat(k)}}, {"q": k}
            s.add_trial(optuna.trial.create_trial(state=TrialState.WAITING, system_attrs=sysattrs, user_attrs=attrs))
            sysattrs["fixed_params"]["x"] = 0.03125
            attrs["q"] = -1
            self.queued[before] = (fixed_pair(k), {"q": k})
        elif op == "ask":
            t = s.ask()
            self.prefix_claimed.add(t.number)
            v = suggest_both(t)
            self.asked.append(t)
            if t.number in self.queued:
                fv, ua = self.queued.pop(t.number)
                if v != fv or type(v[1]) is not type(fv[1]) or t.user_attrs != ua:
                    self.prefix_bad.append(("queued-trial-got-other-value-than-enqueued", f"sequential prefix: trial {t.number}: {v} vs {fv}, attrs {t.user_attrs} vs {ua}"))
        elif op == "tell":
            if not self.asked:
                return False
            s.tell(self.asked.pop(), 1.0)
        elif op == "peek":
            # the WAITING-filtered read has a side effect in the in-memory storage (scan cursor)
            s.get_trials(deepcopy=False, states=(TrialState.WAITING,))
        elif op == "add_done":
            s.add_trial(optuna.trial.create_trial(params={"x": 0.5}, distributions={"x": optuna.distributions.FloatDistribution(0, 1)}, value=0.0))
        return True

    def close(self) -> None:
        self.env.close()


def prefixes(depth: int) -> list[tuple]:
    """All prefix histories up to `depth` that leave 1-2 queued (WAITING) trials."""
    out = []
    for d in range(1, depth + 1):
        for p in itertools.product(PREFIX_OPS, repeat=d):
            q = 0
            running = 0
            ok = True
            for op in p:
                if op in ("enq", "add_wait"):
                    q += 1
                elif op == "ask":
                    if q:
                        q -= 1
                    running += 1
                elif op == "tell":
                    if not running:
                        ok = False
                        break
                    running -= 1
            if ok and 1 <= q <= 2 and p[-1] != "tell" and p[0] != "peek":
                out.append(p)
    return out


# worker programs: list of steps; "ask" = ask + suggest, "enq" = enqueue a new trial
PROGRAMS = {
    2: [(("ask",), ("ask",)), (("ask", "ask"), ("ask",)), (("enq", "ask"), ("ask",)), (("ask",), ("enq",)),
        (("peek", "ask"), ("ask",))],
    3: [(("ask",), ("ask",), ("ask",)), (("ask",), ("ask",), ("enq", "ask"))],
}


class _ForkedThreading:
    """`threading` as the journal storage module sees it inside processes forked from one parent:
    every process's main thread has the same ident (everything else is the real module)."""

    def __init__(self, real: Any) -> None:
        self._real = real

    def get_ident(self) -> int:
        return 4242

    def __getattr__(self, name: str) -> Any:
        return getattr(self._real, name)


class Run:
    def __init__(self, config: str, prefix: tuple, programs: tuple, offset: bool = False) -> None:
        self.config, self.prefix, self.programs, self.offset = config, prefix, programs, offset
        thx.set_instrumented([importlib.import_module(m) for m in CONFIGS[config]])

    def execute(self, ch: Chooser) -> dict:
        backends.reset_uuid()
        import optuna.storages.journal._storage as jmod

        real_threading = jmod.threading
        if self.config == "jlist-forked":
            jmod.threading = _ForkedThreading(real_threading)  # main threads of forked children share the ident
        w = World(self.config, len(self.programs), self.offset)
        try:
            for op in self.prefix:
                if not w.apply_prefix(op):
                    raise InternalError(f"bad prefix {self.prefix}")
            studies = w.worker_studies(len(self.programs))
            for st in w.storages:
                thx.replace_locks(st)
            if w.env.inner is not w.env.storage:
                thx.replace_locks(w.env.inner)
            sched = thx.Sched(ch, max_steps=60000)
            got: list = []  # (worker, trial number, trial id, suggested value, user attrs, invoke step)
            errors: list = []
            enq_done: list = []  # (queued trial number is unknown until read back) steps at which enqueues returned
            q_before = dict(w.queued)

            def mk(i: int):
                def body() -> None:
                    for step in self.programs[i]:
                        sched.point("op")
                        inv = sched.now()
                        try:
                            if step == "peek":
                                studies[i].get_trials(deepcopy=False, states=(TrialState.WAITING,))
                            elif step == "open":
                                # the usual start-up of a worker process: its own create_study record
                                # is rejected (the study exists) and is replayed in one batch with
                                # whatever the other workers appended meanwhile
                                studies[i] = optuna.create_study(study_name="c04", storage=w.worker_storages[i], load_if_exists=True,
                                                                 sampler=optuna.samplers.RandomSampler(seed=0))
                            elif step == "ask":
                                t = studies[i].ask()
                                v = suggest_both(t)
                                got.append((i, t.number, t._trial_id, v, dict(t.user_attrs), inv))
                            else:
                                k = w.n_enq
                                w.n_enq += 1
                                params, attrs = {"x": fixed_value(k), "c": fixed_cat(k)}, {"q": k}
                                studies[i].enqueue_trial(params, user_attrs=attrs)
                                params["x"] = 0.03125
                                attrs["q"] = -1
                                enq_done.append((sched.now(), k))
                        except thx.DeadlockAbort:
                            raise
                        except InternalError:
                            raise
                        except Exception as e:
                            errors.append((i, step, f"{type(e).__name__}: {str(e)[:100]}"))
                return body

            threads = sched.run([mk(i) for i in range(len(self.programs))])
            derr = [t.error for t in threads if t.error and t.error != "deadlock"]
            if derr:
                raise InternalError(f"driver error {derr}")
            final = w.study.get_trials(deepcopy=True) if self.config not in ("jlist-procs", "jlist-forked") else \
                optuna.load_study(study_name="c04", storage=JournalStorage(ListBackend(w.env._shared))).get_trials(deepcopy=True)
            return {"got": got, "errors": errors, "final": [(t.number, t.state.name, dict(t.params), dict(t.user_attrs),
                                                              t.system_attrs.get("fixed_params")) for t in final],
                    "queued_before": q_before, "enq_done": enq_done, "deadlock": sched.deadlock, "steps": sched.step,
                    "prefix_bad": list(w.prefix_bad), "prefix_claimed": sorted(w.prefix_claimed)}
        finally:
            jmod.threading = real_threading
            w.close()

    def check(self, ex: dict) -> list[tuple[str, str]]:
        bad = list(ex.get("prefix_bad", []))
        if ex["deadlock"]:
            return [("deadlock", "")]
        final = {n: (st, params, ua, fp) for n, st, params, ua, fp in ex["final"]}
        queued = {n: fp for n, (st, params, ua, fp) in final.items() if fp is not None}  # every trial that was ever queued
        claims: dict = {}
        for i, num, tid, v, ua, inv in ex["got"]:
            claims.setdefault(num, []).append(i)
        for num, ws in claims.items():
            if len(ws) > 1:
                bad.append(("trial-returned-by-two-asks", f"trial {num} workers {ws}"))
        for num, fp in queued.items():
            q = final[num][2].get("q")
            if not isinstance(q, int) or q < 0 or fp.get("x") != fixed_value(q) or set(fp) != {"x", "c"} \
                    or fp["c"] != fixed_cat(q) or type(fp["c"]) is not type(fixed_cat(q)):
                bad.append(("queued-parameters-changed-after-enqueue-returned", f"trial {num}: fixed_params={fp} user_attrs={final[num][2]}"))
        for i, num, tid, v, ua, inv in ex["got"]:
            if num in queued:
                fv = (queued[num]["x"], queued[num].get("c", "<missing>"))
                if v != fv or type(v[1]) is not type(fv[1]):
                    bad.append(("queued-trial-got-other-value-than-enqueued", f"trial {num}: {v} vs {fv}"))
                if (final[num][1].get("x"), final[num][1].get("c", "<missing>")) != fv:
                    bad.append(("stored-param-differs-from-enqueued", f"trial {num}"))
                want_ua = final[num][2]
                if "q" not in ua or ua != want_ua:
                    bad.append(("queued-trial-lost-user-attrs", f"trial {num}: {ua}"))
        # none skipped: asks that started after every enqueue had finished
        n_enq_concurrent = sum(1 for p in self.programs for s in p if s == "enq")
        last_enq = max([s for s, _ in ex["enq_done"]], default=0) if len(ex["enq_done"]) == n_enq_concurrent else None
        still_waiting = [n for n, (st, *_r) in final.items() if st == "WAITING"]
        if last_enq is not None and not ex["errors"]:
            late_asks = sum(1 for g in ex["got"] if g[5] >= last_enq)
            queued_at_that_time = len(still_waiting) + sum(1 for g in ex["got"] if g[1] in queued and g[5] >= last_enq)
            if still_waiting and late_asks >= queued_at_that_time:
                bad.append(("queued-trial-skipped-although-enough-asks-followed", f"waiting {still_waiting}"))
            # an ask that started after all enqueues must not create a fresh trial while a queued one stays WAITING
            fresh_late = [g for g in ex["got"] if g[5] >= last_enq and g[1] not in queued]
            if still_waiting and fresh_late:
                bad.append(("fresh-trial-created-while-queued-trial-left-waiting", f"waiting {still_waiting}"))
        for n, (st, params, ua, fp) in final.items():
            if st == "RUNNING" and fp is not None and n not in claims and n not in ex.get("prefix_claimed", ()):
                # a queued trial that left WAITING must be in somebody's hands
                bad.append(("queued-trial-RUNNING-but-returned-by-no-ask", f"trial {n}"))
        return bad


def task_fn(task: tuple) -> dict:
    config, prefix, programs, bound = task[:4]
    offset = len(task) > 4 and task[4]
    backends.setup_determinism()
    part = Part()
    run = Run(config, prefix, programs, offset)
    outcomes: set = set()
    first = {"done": False}

    def on_exec(ch: Chooser, ex: dict) -> None:
        part.add("executions")
        part.add("transitions", ex["steps"])
        if not first["done"]:
            ex2 = run.execute(Chooser(ch.choices))
            if (ex2["got"], ex2["final"]) != (ex["got"], ex["final"]):
                raise InternalError(f"replaying one schedule twice differed: {task}")
            first["done"] = True
        outcomes.add((tuple(sorted((g[0], g[1]) for g in ex["got"])), tuple(e[2].split(":")[0] for e in ex["errors"])))
        for e in ex["errors"]:
            part.note(f"ask/enqueue raised {e[2].split(':')[0]} in {config} (observation, not a clause of C04)")
        for clause, detail in run.check(ex):
            key = f"thx|{config}{'+other-study' if offset else ''}|{clause}"
            part.violation(key, {"engine": "thx", "config": config, "other_study_in_storage": offset, "prefix": prefix, "programs": programs,
                                 "schedule": ch.choices, "clause": clause, "detail": detail, "asks": ex["got"],
                                 "final": ex["final"], "errors": ex["errors"]})

    st = explore(run.execute, bound, on_exec, max_execs=50000)
    if st["capped"]:
        part.add("caps_hit")
    part.add("scenarios")
    part.add("states", len(outcomes))
    part.add("traces_validated_against_impl", st["executions"])
    part.setmax("max_points", st["max_points"])
    if len(prefix) >= 2:
        part.sample({"config": config, "prefix": prefix, "programs": programs, "bound": bound,
                     "executions": st["executions"], "distinct_outcomes": len(outcomes)}, cap=1)
    return part.out()


def replay_case(raw: dict, part: Part) -> None:
    backends.setup_determinism()
    backends.sqlite_template()
    run = Run(raw["config"], tuple(raw["prefix"]), tuple(tuple(p) for p in raw["programs"]), bool(raw.get("other_study_in_storage")))
    ex = run.execute(Chooser(list(raw["schedule"])))
    print("asks:", ex["got"], "final:", ex["final"])
    for clause, detail in run.check(ex):
        part.violation(clause, raw)


def run(tier: str, replay: str | None = None) -> int:
    backends.setup_determinism()
    ctx = Ctx(PID, tier, "model_checking")
    backends.sqlite_template()
    tasks = []
    for cfg in CONFIGS:
        slow = cfg in ("cached",)
        depth = 2 if tier == "quick" else 3
        bound = 1 if tier == "quick" else 2
        pres = prefixes(depth)
        progs2 = PROGRAMS[2]
        if cfg != "mem" and tier == "quick":
            pres = [p for p in pres if len(p) == 1] + [("enq", "enq"), ("enq", "add_done"), ("ask", "enq"), ("enq", "peek"), ("enq", "ask", "enq")]
            progs2 = [PROGRAMS[2][0], PROGRAMS[2][2]]
        for p in pres:
            # thorough: every depth-3 prefix at bound 1; bound 2 for the prefixes of depth 1 on the
            # fast configurations (a bound-2 task has up to 2*10^5 schedules)
            b = bound if tier == "quick" else (2 if (len(p) <= 1 and not slow and cfg != "grpc(mem)") else 1)
            for progs in progs2:
                tasks.append((cfg, p, progs, b if (tier == "quick" or progs in (PROGRAMS[2][0], PROGRAMS[2][2])) else 1))
            if cfg in ("jlist-procs", "jlist-forked"):
                tasks.append((cfg, p, (("open", "ask"), ("ask",)), b))
            if (tier == "thorough" or cfg == "mem") and not slow:
                for progs in PROGRAMS[3]:
                    tasks.append((cfg, p, progs, 1))
    # the same storage also holds another study with (queued) trials: ids are offset from numbers
    for cfg in ("mem", "jlist", "cached"):
        for p in [("enq",), ("ask", "enq"), ("enq", "peek"), ("ask", "enq", "enq"), ("add_done", "ask", "enq")]:
            tasks.append((cfg, p, PROGRAMS[2][0], 1, True))
            if cfg == "mem" or tier == "thorough":
                tasks.append((cfg, p, PROGRAMS[2][2], 1, True))
    only = os.environ.get("VF_CONFIGS")
    if only:
        tasks = [t for t in tasks if t[0] in only.split(",")]
    pmap(ctx, task_fn, tasks)
    ctx.assumptions += [
        "pre-emption at source lines of optuna/study/study.py and the storage-layer file (+ lock operations)",
        "cached: SQLite calls are atomic steps here (statement-level interleavings: SQL part); SQLite double claim is explored there",
        "ask() raising is recorded as an observation only (no clause of C04 speaks about it)",
    ]
    backends.cleanup_root()
    return ctx.finish(
        exhaustive=not ctx.cov.get("caps_hit"),
        rule="every prefix history of depth <= 2 (thorough 3) over {enqueue, ask, tell, add finished, add WAITING} leaving 1-2 queued trials x worker programs (2 workers: ask|ask, ask ask|ask, enq ask|ask, ask|enq, peek ask|ask, and for separate journal processes open ask|ask; 3 workers) x all schedules up to the preemption bound; states = distinct (who got which trial, errors) outcomes",
    )


if __name__ == "__main__":
    main_wrapper(run)
