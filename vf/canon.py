"""Canonical forms: NaN-aware, order-insensitive comparison of observations and a generic
digest of implementation instance state (for state caching in seqx)."""
from __future__ import annotations

import datetime
import enum
import hashlib
import math
import threading
from typing import Any

_LOCK_TYPES = (type(threading.Lock()), type(threading.RLock()))


def cfloat(x: float) -> Any:
    if isinstance(x, float):
        if math.isnan(x):
            return ("f", "nan")
        if math.isinf(x):
            return ("f", "+inf" if x > 0 else "-inf")
    return x


def canon_value(x: Any) -> Any:
    """Canonical, hashable form of a JSON-like / optuna value. Dict order is dropped,
    list order kept, int/float distinction kept only through equality (1 == 1.0)."""
    if isinstance(x, bool) or x is None or isinstance(x, str):
        return x
    if isinstance(x, enum.Enum):
        return ("enum", type(x).__name__, x.name)
    if isinstance(x, (int, float)):
        if isinstance(x, float):
            c = cfloat(x)
            if c is not x:
                return c
            if x == int(x) and abs(x) < 2**53:
                return int(x)
        return x
    if isinstance(x, dict):
        return ("d", tuple(sorted(((canon_value(k), canon_value(v)) for k, v in x.items()), key=repr)))
    if isinstance(x, (list, tuple)):
        return ("l", tuple(canon_value(v) for v in x))
    if isinstance(x, (set, frozenset)):
        return ("s", tuple(sorted((canon_value(v) for v in x), key=repr)))
    if isinstance(x, datetime.datetime):
        return ("dt", x.isoformat())
    # numpy scalars
    try:
        import numpy as np

        if isinstance(x, np.generic):
            return canon_value(x.item())
    except Exception:
        pass
    return ("o", type(x).__name__, repr(x))


def state_digest(obj: Any, skip_types: tuple = (), skip_attr: tuple = (), str_map: dict | None = None) -> str:
    """Digest of an arbitrary object graph: every attribute of every reachable object is included
    (so hidden cursors / watermarks count), except locks, datetimes (only None-ness kept) and the
    given skip types. Identity/aliasing is not encoded."""
    h = hashlib.blake2b(digest_size=16)
    seen: set[int] = set()

    def w(s: str) -> None:
        h.update(s.encode())
        h.update(b"\0")

    def walk(x: Any, depth: int = 0) -> None:
        if depth > 60:
            w("<deep>")
            return
        if isinstance(x, str) and str_map:
            for a, b in str_map.items():
                x = x.replace(a, b)
        if x is None or isinstance(x, (bool, str, bytes)):
            w(repr(x))
            return
        if isinstance(x, enum.Enum):
            w(f"E{type(x).__name__}.{x.name}")
            return
        if isinstance(x, (int, float)):
            w(repr(canon_value(x)))
            return
        if isinstance(x, (datetime.datetime, datetime.date)):
            w("DT")
            return
        if isinstance(x, _LOCK_TYPES) or (skip_types and isinstance(x, skip_types)):
            w("<skip>")
            return
        if isinstance(x, dict):
            w("{")
            items = sorted(x.items(), key=lambda kv: repr(canon_value(kv[0])))
            for k, v in items:
                walk(k, depth + 1)
                walk(v, depth + 1)
            w("}")
            return
        if isinstance(x, (list, tuple)):
            w("[")
            for v in x:
                walk(v, depth + 1)
            w("]")
            return
        if isinstance(x, (set, frozenset)):
            w("<")
            for v in sorted(x, key=lambda v: repr(canon_value(v))):
                walk(v, depth + 1)
            w(">")
            return
        if id(x) in seen:
            w("<cycle>")
            return
        d = getattr(x, "__dict__", None)
        if d is not None and not callable(x):
            seen.add(id(x))
            w(f"O{type(x).__name__}(")
            for k in sorted(d):
                if k in skip_attr:
                    continue
                w(k)
                walk(d[k], depth + 1)
            w(")")
            seen.discard(id(x))
            return
        try:
            import numpy as np

            if isinstance(x, np.ndarray):
                w(repr(x.tolist()))
                return
            if isinstance(x, np.generic):
                w(repr(canon_value(x.item())))
                return
        except Exception:
            pass
        w(f"<{type(x).__name__}>")

    walk(obj)
    return h.hexdigest()
