"""sqlx: statement-level scheduler in front of real SQLite (DESIGN 2.3, "SQL scheduler").

A "process" is a baton-scheduled thread with its own RDBStorage (own engine, own connection) on a
shared SQLite file. Scheduling points: every SQL statement (SQLAlchemy before_cursor_execute) and
every commit/rollback. SQLite's single-writer lock is modelled: the first DML of a transaction
takes it, commit/rollback releases it, a process about to execute DML while another holds it is
DISABLED (that is what the busy handler does in real time). The real SQLite executes everything;
a real "database is locked" under an enabled choice means the lock model is wrong (internal error).
Crash = the victim raises out of its call at a statement boundary; its session is closed without
commit (what process death + hot-journal rollback give at the SQL level).
"""
from __future__ import annotations

from typing import Any

import sqlalchemy
from sqlalchemy import event

from . import thx
from .core import InternalError

WRITE_LOCK = "sqlite-write-lock"
_DML = ("INSERT", "UPDATE", "DELETE", "REPLACE")


class Crashed(BaseException):
    pass


class SqlWorld:
    """Shared lock model + crash plan for one execution."""

    def __init__(self, sched: thx.Sched) -> None:
        self.sched = sched
        self.holder: Any = None
        self.crash_plan: dict = {}  # proc idx -> statement ordinal at which it dies (before it)
        self.n_stmt: dict = {}
        self.crashed: set = set()
        self.log: list = []

    def _me(self) -> Any:
        return self.sched.me()

    def before_statement(self, statement: str) -> None:
        t = self._me()
        if t is None:
            return
        if t.idx in self.crashed:
            raise Crashed()
        n = self.n_stmt.get(t.idx, 0)
        if self.crash_plan.get(t.idx) == n:
            self.crashed.add(t.idx)
            self.log.append((t.idx, "CRASH before", statement[:40]))
            raise Crashed()
        self.n_stmt[t.idx] = n + 1
        head = statement.lstrip()[:7].upper()
        self.sched.point("sql", head)
        self.log.append((t.idx, statement[:60].replace("\n", " ")))
        if head.startswith(_DML):
            while self.holder is not None and self.holder is not t:
                self.sched.block_on(WRITE_LOCK)
            self.holder = t

    def proc_died(self, idx: int) -> None:
        """Called by the driver once the Crashed exception has unwound the victim's call: its
        session is closed, the DBAPI connection released/invalidated - SQLite has dropped its lock."""
        if self.holder is not None and self.holder.idx == idx:
            self.holder = None
            self.sched.wake(WRITE_LOCK)

    def end_transaction(self, kind: str, real: Any) -> None:
        t = self._me()
        if t is None or t.idx in self.crashed:
            real()
            if t is not None and self.holder is t:
                self.holder = None
                self.sched.wake(WRITE_LOCK)
            return
        n = self.n_stmt.get(t.idx, 0)
        if kind == "commit" and self.crash_plan.get(t.idx) == n:
            self.crashed.add(t.idx)
            self.log.append((t.idx, "CRASH before commit"))
            raise Crashed()
        self.n_stmt[t.idx] = n + 1
        if kind == "commit":
            self.sched.point("sql", "COMMIT")
        real()
        self.log.append((t.idx, kind.upper()))
        if self.holder is t:
            self.holder = None
            self.sched.wake(WRITE_LOCK)


_WORLD: SqlWorld | None = None


def activate(world: SqlWorld | None) -> None:
    global _WORLD
    _WORLD = world


def attach(storage: Any) -> None:
    """Install the statement / commit / rollback seams on this storage's engine (idempotent)."""
    rdb = getattr(storage, "_backend", storage)
    engine = rdb.engine
    if getattr(engine, "_vf_attached", False):
        return
    engine._vf_attached = True

    @event.listens_for(engine, "before_cursor_execute")
    def _before(conn, cursor, statement, parameters, context, executemany):  # noqa: ANN001
        w = _WORLD
        if w is not None:
            w.before_statement(statement)

    dialect = engine.dialect
    real_commit, real_rollback = dialect.do_commit, dialect.do_rollback

    def do_commit(dbapi_connection):  # noqa: ANN001
        w = _WORLD
        if w is None:
            return real_commit(dbapi_connection)
        return w.end_transaction("commit", lambda: real_commit(dbapi_connection))

    def do_rollback(dbapi_connection):  # noqa: ANN001
        w = _WORLD
        if w is None:
            return real_rollback(dbapi_connection)
        return w.end_transaction("rollback", lambda: real_rollback(dbapi_connection))

    dialect.do_commit = do_commit
    dialect.do_rollback = do_rollback
