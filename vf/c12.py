"""C12 - best_trial / best_value / best_trials are exactly the optimum of the history.

seqx: every ordered tuple of n trials drawn from a menu of trial kinds (COMPLETE x value in
{-inf,0,1,inf} x constraint, PRUNED with a tempting value, FAIL, RUNNING), both directions, created
as templates and as RUNNING trials finished in EVERY order (the in-memory best-trial cache is
order sensitive), on backends with three different implementations (incremental cache, SQL
ranking, base-class scan, and the gRPC proxy in front of them); multi-objective: all value vectors
over {-inf,0,1,inf}^d, all direction vectors. Oracle: brute force over study.trials.
"""
from __future__ import annotations

import itertools
import math
import os
from typing import Any

import optuna
from optuna.study import StudyDirection
from optuna.trial import FrozenTrial, TrialState

from . import backends
from .backends import Env
from .core import Ctx, InternalError, Part, main_wrapper, pmap
from .sharness import DT0, DT1

PID = "C12"
INF = float("inf")
MIN, MAX = StudyDirection.MINIMIZE, StudyDirection.MAXIMIZE
VALS = [-INF, 0.0, 1.0, INF]
CONS = [(-1.0,), (1.0,), (-1.0, 1.0)]  # feasible, infeasible, infeasible (one violated)


def kinds(constrained: bool) -> list[tuple]:
    ks: list[tuple] = []
    for v in VALS:
        if constrained:
            for c in CONS:
                ks.append(("C", v, c))
        else:
            ks.append(("C", v, None))
    ks += [("P",), ("F",), ("R",)]
    return ks


def mk_template(kind: tuple, direction: StudyDirection, n_obj: int = 1) -> FrozenTrial:
    st = {"C": TrialState.COMPLETE, "P": TrialState.PRUNED, "F": TrialState.FAIL, "R": TrialState.RUNNING}[kind[0]]
    values = None
    sysattrs: dict = {}
    if kind[0] == "C":
        values = list(kind[1]) if isinstance(kind[1], tuple) else [kind[1]]
        if kind[2] is not None:
            sysattrs["constraints"] = list(kind[2])
    elif kind[0] == "P":
        # a PRUNED trial with the best possible value: must never be "best"
        values = [INF if direction == MAX else -INF] * n_obj
    return FrozenTrial(number=-1, trial_id=-1, state=st, value=None, values=values,
                       datetime_start=DT0, datetime_complete=DT1 if st.is_finished() else None,
                       params={}, distributions={}, user_attrs={}, system_attrs=sysattrs, intermediate_values={})


def steps(st: Any, sid: int, directions: list, hist: tuple, finish_order: tuple | None) -> Any:
    """Create the trials one storage write at a time, yielding after each one. finish_order None:
    all templates; else COMPLETE trials are created RUNNING (constraints set first) and finished in
    that order (indices into hist). The writes go straight to the storage, like another client."""
    ids = []
    for i, k in enumerate(hist):
        if finish_order is not None and k[0] == "C":
            tid = st.create_new_trial(sid)
            if k[2] is not None:
                st.set_trial_system_attr(tid, "constraints", list(k[2]))
        else:
            tid = st.create_new_trial(sid, mk_template(k, directions[0], len(directions)))
        ids.append(tid)
        yield ("create", i)
    if finish_order is not None:
        for i in finish_order:
            k = hist[i]
            vals = list(k[1]) if isinstance(k[1], tuple) else [k[1]]
            st.set_trial_state_values(ids[i], TrialState.COMPLETE, vals)
            yield ("finish", i)


def _other_study(st: Any, config: str) -> None:
    """Another study in the same storage holding the extreme values: per-study bookkeeping (best
    trial caches, SQL filters) must not leak across studies. Skipped on the slowest configurations."""
    if config in ("cached", "grpc(cached)"):
        return
    o = st.create_new_study([MIN], "c12-other")
    st.create_new_trial(o, mk_template(("C", -INF, (-1.0,)), MIN))
    st.create_new_trial(o, mk_template(("C", INF, (-1.0,)), MIN))


def better(a: float, b: float, d: StudyDirection) -> bool:
    return a > b if d == MAX else a < b


def check_single(env: Env, direction: StudyDirection, hist: tuple, finish_order: tuple | None, part: Part,
                 config: str) -> None:
    st = env.storage
    _other_study(st, config)
    sid = st.create_new_study([direction], "c12")
    # ONE long-lived Study object (what a sampler, callback or dashboard holds) is asked after
    # EVERY write made by "another client": stale per-thread caches must not leak into the answer
    study = optuna.load_study(study_name="c12", storage=st)
    all_steps = len(hist) + (len(finish_order) if finish_order else 0)
    slow = config in ("rdb", "cached", "grpc(cached)")
    for n, step in enumerate(steps(st, sid, [direction], hist, finish_order)):
        if slow and n < all_steps - 2:
            continue  # SQLite-backed (slow): the last two writes only
        verify_single(study, st, sid, direction, hist, finish_order, part, config, step)


def verify_single(study: Any, st: Any, sid: int, direction: StudyDirection, hist: tuple, finish_order: tuple | None,
                  part: Part, config: str, step: tuple) -> None:
    trials = st.get_all_trials(sid, deepcopy=False)
    comp = [t for t in trials if t.state == TrialState.COMPLETE]
    constrained = any("constraints" in t.system_attrs for t in comp)
    feas = [t for t in comp if not constrained or all(x <= 0 for x in t.system_attrs.get("constraints", [1]))]
    rep = {"config": config, "direction": direction.name, "history": hist, "finish_order": finish_order, "after_step": step}

    def fail(clause: str, detail: Any) -> None:
        part.violation(f"{config}|single|{clause}", dict(rep, clause=clause, detail=detail))

    # --- Study.best_trial ---------------------------------------------------------------------
    try:
        bt = study.best_trial
        err = None
    except Exception as e:
        bt, err = None, type(e).__name__
    if config == "rdb":
        pass  # Study wraps a raw RDBStorage in _CachedStorage (= config "cached"): storage level only
    elif not comp:
        if err != "ValueError":
            fail("no-complete-trial-but-no-ValueError", err or f"returned #{bt.number}")
    elif feas:
        if bt is None:
            fail("best_trial-raises-although-eligible-trial-exists", err)
        else:
            same = [t for t in trials if t.number == bt.number]
            if not same or same[0].state != TrialState.COMPLETE:
                fail("best_trial-not-COMPLETE", bt.number)
            elif bt.number not in [t.number for t in feas]:
                fail("best_trial-infeasible-although-feasible-exists", bt.number)
            elif any(better(t.value, bt.value, direction) for t in feas):
                fail("best_trial-beaten", f"#{bt.number}={bt.value}")
            else:
                try:
                    bv = study.best_value
                    if bv != bt.value:
                        fail("best_value-differs-from-best_trial", f"{bv} vs {bt.value}")
                except Exception as e:
                    fail("best_value-raises", type(e).__name__)
    else:
        # constrained and nothing feasible: the statement leaves it open (ValueError or a COMPLETE trial)
        if bt is not None and bt.state != TrialState.COMPLETE:
            fail("best_trial-not-COMPLETE", bt.number)
        elif bt is None and err != "ValueError":
            fail("unexpected-error-class", err)
    # --- storage-level get_best_trial (no constraints at this level) -----------------------------
    try:
        sb = st.get_best_trial(sid)
        serr = None
    except Exception as e:
        sb, serr = None, type(e).__name__
    if not comp:
        if serr != "ValueError":
            fail("storage.get_best_trial-no-ValueError", serr or sb.number)
    else:
        if sb is None:
            fail("storage.get_best_trial-raises", serr)
        elif sb.state != TrialState.COMPLETE or any(better(t.value, sb.value, direction) for t in comp):
            fail("storage.get_best_trial-beaten-or-not-COMPLETE", f"#{sb.number}={sb.values}")
    # --- best_trials on a single-objective study -------------------------------------------------
    if config == "rdb":
        part.add("evaluations")
        return
    try:
        bts = {t.number for t in study.best_trials}
        pool = feas if constrained else comp
        want = {t.number for t in pool if not any(better(u.value, t.value, direction) for u in pool)}
        if bts != want:
            fail("best_trials-single-objective", f"{sorted(bts)} vs {sorted(want)}")
    except Exception as e:
        fail("best_trials-raises", type(e).__name__)
    part.add("evaluations")


def dominates(a: list, b: list, dirs: list) -> bool:
    la = [(-x if d == MAX else x) for x, d in zip(a, dirs)]
    lb = [(-x if d == MAX else x) for x, d in zip(b, dirs)]
    return all(x <= y for x, y in zip(la, lb)) and any(x < y for x, y in zip(la, lb))


def check_multi(env: Env, dirs: list, hist: tuple, finish_order: tuple | None, part: Part, config: str) -> None:
    st = env.storage
    _other_study(st, config)
    sid = st.create_new_study(dirs, "c12")
    study = optuna.load_study(study_name="c12", storage=st)
    all_steps = len(hist) + (len(finish_order) if finish_order else 0)
    for n, step in enumerate(steps(st, sid, dirs, hist, finish_order)):
        if n < all_steps - 2:
            continue
        verify_multi(study, st, sid, dirs, hist, finish_order, part, config, step)


def verify_multi(study: Any, st: Any, sid: int, dirs: list, hist: tuple, finish_order: tuple | None, part: Part,
                 config: str, step: tuple) -> None:
    trials = st.get_all_trials(sid, deepcopy=False)
    comp = [t for t in trials if t.state == TrialState.COMPLETE]
    constrained = any("constraints" in t.system_attrs for t in trials)
    pool = [t for t in comp if not constrained or ("constraints" in t.system_attrs and all(x <= 0 for x in t.system_attrs["constraints"]))]
    want = {t.number for t in pool if not any(dominates(u.values, t.values, dirs) for u in pool)}
    rep = {"config": config, "directions": [d.name for d in dirs], "history": hist, "finish_order": finish_order, "after_step": step}
    try:
        got = [t.number for t in study.best_trials]
    except Exception as e:
        part.violation(f"{config}|multi|best_trials-raises", dict(rep, detail=type(e).__name__))
        return
    if len(set(got)) != len(got):
        part.violation(f"{config}|multi|best_trials-duplicates", dict(rep, detail=got))
    if set(got) != want:
        part.violation(f"{config}|multi|best_trials-not-the-pareto-set", dict(rep, detail=f"{sorted(got)} vs {sorted(want)}"))
    try:
        study.best_trial
        part.violation(f"{config}|multi|best_trial-does-not-raise", rep)
    except RuntimeError:
        pass
    except Exception as e:
        part.violation(f"{config}|multi|best_trial-wrong-error", dict(rep, detail=type(e).__name__))
    part.add("evaluations")


def finish_orders(hist: tuple, full: bool) -> list:
    idx = [i for i, k in enumerate(hist) if k[0] == "C"]
    if not idx:
        return [None]
    perms = list(itertools.permutations(idx))
    if not full:
        perms = [perms[0], perms[-1]]
    return [None] + perms


def task_fn(task: tuple) -> dict:
    mode, config, n, constrained, first, full_orders = task
    backends.setup_determinism()
    part = Part()
    nontrivial = 0
    if mode == "single":
        ks = kinds(constrained)
        pre = first if isinstance(first[0], tuple) else (first,)
        for rest in itertools.product(ks, repeat=n - len(pre)):
            hist = pre + rest
            if constrained and not any(k[0] == "C" for k in hist):
                continue
            for d in (MIN, MAX):
                for fo in finish_orders(hist, full_orders):
                    env = Env(config)
                    try:
                        check_single(env, d, hist, fo, part, config)
                    finally:
                        env.close()
            if sum(1 for k in hist if k[0] == "C") >= 2:
                nontrivial += 1
        part.sample({"config": config, "history": hist, "constrained": constrained}, cap=1)
    else:
        d_obj = len(first[1]) if first[0] == "C" else 2
        vecs = list(itertools.product(VALS if not constrained else [0.0, 1.0], repeat=d_obj))
        ks = [("C", v, c) for v in vecs for c in ([None] if not constrained else [(-1.0,), (1.0,)])] + [("F",)]
        for rest in itertools.product(ks, repeat=n - 1):
            hist = (first,) + rest
            for dirs in itertools.product((MIN, MAX), repeat=d_obj):
                for fo in ([None] if not full_orders else finish_orders(hist, False)):
                    env = Env(config)
                    try:
                        check_multi(env, list(dirs), hist, fo, part, config)
                    finally:
                        env.close()
            nontrivial += 1
        part.sample({"config": config, "history": hist, "constrained": constrained}, cap=1)
    part.add("distinct_nontrivial", nontrivial)
    part.add("states", nontrivial)
    part.add("transitions", part.cov.get("evaluations", 0))
    return part.out()


def plan(tier: str) -> list[tuple]:
    tasks = []
    fast = ["mem", "jfile-sym", "grpc(mem)"]
    slow = ["rdb", "cached", "grpc(cached)"]
    for cfg in fast + slow:
        for constrained in (False, True):
            n = 3 if cfg in fast else 2
            if tier == "thorough":
                n = 4 if (cfg == "mem" and not constrained) else 3
            if cfg != "mem" and tier == "quick" and cfg in fast and constrained:
                n = 2
            for first in kinds(constrained):
                if n >= 3 and (cfg == "mem" or tier == "thorough"):
                    for second in kinds(constrained):
                        tasks.append(("single", cfg, n, constrained, (first, second),
                                      (cfg == "mem" and not constrained) or tier == "thorough"))
                else:
                    tasks.append(("single", cfg, n, constrained, first, cfg == "mem" or tier == "thorough"))
    # multi-objective
    for cfg in ["mem", "jfile-sym", "grpc(mem)", "cached"]:
        for d_obj in ((2,) if tier == "quick" else (2, 3)):
            for constrained in (False, True):
                n = 3 if cfg == "mem" else 2
                if tier == "thorough" and cfg == "mem" and d_obj == 2:
                    n = 4 if constrained else 3
                vecs = list(itertools.product(VALS if not constrained else [0.0, 1.0], repeat=d_obj))
                for v in vecs:
                    for c in ([None] if not constrained else [(-1.0,), (1.0,)]):
                        tasks.append(("multi", cfg, n, constrained, ("C", v, c), cfg == "mem"))
    return tasks


def replay_case(raw: dict, part: Part) -> None:
    backends.setup_determinism()
    backends.sqlite_template()
    env = Env(raw["config"])
    try:
        if "direction" in raw:
            check_single(env, StudyDirection[raw["direction"]], tuple(raw["history"]), raw["finish_order"], part, raw["config"])
        else:
            check_multi(env, [StudyDirection[d] for d in raw["directions"]], tuple(raw["history"]), raw["finish_order"], part, raw["config"])
    finally:
        env.close()


def run(tier: str, replay: str | None = None) -> int:
    backends.setup_determinism()
    ctx = Ctx(PID, tier, "model_checking")
    backends.sqlite_template()
    tasks = plan(tier)
    only = os.environ.get("VF_CONFIGS")
    if only:
        tasks = [t for t in tasks if t[1] in only.split(",")]
    pmap(ctx, task_fn, tasks)
    ctx.cov["traces_validated_against_impl"] = ctx.cov.get("evaluations", 0)
    ctx.assumptions += [
        "constraints are recorded on all COMPLETE trials of a history or on none (the statement leaves the mixed case open)",
        "ties: any member of the arg-best set is accepted; constrained with no feasible trial: ValueError or any COMPLETE trial accepted",
        "RDB = SQLite; Study wraps RDBStorage in _CachedStorage, the raw RDBStorage is exercised through storage.get_best_trial",
    ]
    backends.cleanup_root()
    return ctx.finish(
        exhaustive=True,
        rule="all ordered tuples of n trial kinds (n=3 fast backends / 2 SQLite-backed quick; 4 / 3 thorough) x both directions x {templates, RUNNING-then-finished in every order}; multi-objective: all value vectors over {-inf,0,1,inf}^d x all direction vectors; states = histories with >= 2 COMPLETE trials",
    )


if __name__ == "__main__":
    main_wrapper(run)
