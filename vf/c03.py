"""C03 - concurrent use of one study is linearizable.

Part A (thx): 2-3 real threads sharing ONE storage object, pre-emption at every source line of
the storage layer file under test, iterative preemption bounding; brute-force linearizability
oracle against the same backend run one call at a time.
Part B (procx, vf/sqlx.py and vf/simfs.py): OS-process-level interleavings over a shared SQLite
file / journal file.
"""
from __future__ import annotations

import importlib
import os
from typing import Any

from . import backends
from .core import Ctx, InternalError, Part, main_wrapper, pmap
from .explore import Chooser, explore
from .linz import RedisScenario, Scenario, SimfsScenario, SqlScenario
from .sharness import S

PID = "C03"

SQL_CONFIGS = ["rdb-procs", "cached-procs", "rdb-shared"]
SIMFS_CONFIGS = ["jfile-procs-sym", "jfile-procs-open"]
REDIS_CONFIGS = ["jredis-procs", "jredis-cluster-procs"]

THREAD_CONFIGS = {
    "mem": ["optuna.storages._in_memory"],
    "jlist": ["optuna.storages.journal._storage"],
    "cached": ["optuna.storages._cached_storage"],
    "grpc(mem)": ["optuna.storages._grpc.client"],
}


NEW_TRIAL_ID = 4  # SQLite: set-up creates trials 1..3


def alphabet(v: int) -> dict[str, tuple]:
    """Collision-forcing operations; v = thread index (so lost updates are visible)."""
    return {
        "create_trial": ("create_trial", "s", None),
        "create_waiting": ("create_trial", "s", "bare_wait"),
        "set_param": ("set_param", "t_run", "x", "f", 0.25 * (v + 1)),
        "user_attr": ("user_attr", "t_run", "k", v),
        "user_attr2": ("user_attr", "t_run", f"k{v}", v),
        "set_iv": ("set_iv", "t_run", 0, float(v)),
        "claim": ("set_state", "t_wait", S.RUNNING, None),
        "finish": ("set_state", "t_run", S.COMPLETE, (float(v),)),
        "create_study": ("create_study", "X"),
        "delete_study": ("delete_study", "s"),
        "get_all_trials": ("get_all_trials", "s", False, None),
        # the deep-copying read: the copy is pure Python and can be pre-empted between two trials
        "get_all_dc": ("get_all_trials", "s", True, None),
        "get_waiting": ("get_all_trials", "s", False, (S.WAITING,)),
        "get_trial": ("get_trial", "t_run"),
        "get_n_trials": ("get_n_trials", "s"),
        "get_best": ("get_best", "s"),
        # study-level calls (thread configurations; mem in quick, all in thorough)
        "study_attr": ("study_attr", "s", f"k{v}", v),
        "get_studies": ("get_all_studies",),
        "id_from_number": ("id_from_number", "s", 3),  # number 3 = the first trial created by a program
        # the foreign worker of cached+foreign: claims / finishes the trial the cached client is
        # just creating (SQLite gives it the next id after the three set-up trials)
        "claim_new": ("set_state", NEW_TRIAL_ID, S.RUNNING, None),
        "finish_new": ("set_state", NEW_TRIAL_ID, S.COMPLETE, (0.5,)),
        "get_new": ("get_trial", NEW_TRIAL_ID),
    }


FOREIGN_ONLY = ("claim_new", "finish_new", "get_new")
NAMES = [n for n in alphabet(0) if n not in FOREIGN_ONLY]
# quick tier, configurations other than mem: the ten most collision-prone operations
QUICK_NAMES = ["create_trial", "create_waiting", "set_param", "user_attr", "claim", "finish", "create_study", "delete_study",
               "get_all_trials", "get_waiting"]
# set_param twice on one trial and name is outside the contract (see C01): pair it with others only
NO_SELF_PAIR = {"set_param"}


def scenarios(tier: str) -> list[tuple]:
    """(config, programs-as-names, bound)"""
    out = []
    for cfg in THREAD_CONFIGS:
        slow = cfg == "cached"
        if tier == "quick":
            bound = 2 if cfg == "mem" else 1
        else:
            bound = 3 if cfg == "mem" else 2  # (bound 3 on jlist / grpc(mem): ~5*10^4 schedules per pair, hours in total)
        names_cfg = NAMES if (cfg == "mem" or tier == "thorough") else QUICK_NAMES
        for i, a in enumerate(names_cfg):
            for b in names_cfg[i:]:
                if a == b and a in NO_SELF_PAIR:
                    continue
                out.append((cfg, ((a,), (b,)), bound))
        # 2 threads x 2 ops and 3 threads x 1 op (curated, collision-forcing)
        two = [
            (("create_trial", "user_attr"), ("create_trial", "finish")),
            (("create_waiting", "claim"), ("claim", "get_waiting")),
            (("user_attr", "finish"), ("get_trial", "get_best")),
            (("create_trial", "get_n_trials"), ("delete_study", "create_study")),
            (("set_iv", "get_all_trials"), ("set_iv", "finish")),
        ]
        three = [
            (("create_trial",), ("create_trial",), ("get_all_trials",)),
            (("claim",), ("claim",), ("claim",)),
            (("user_attr",), ("user_attr2",), ("finish",)),
            (("create_study",), ("create_study",), ("get_n_trials",)),
        ]
        b2 = 1 if tier == "quick" else 2
        if tier == "thorough" or not slow:
            for p in two + three:
                # (three threads over SQLite at bound 2: a single scenario runs for ~40 minutes)
                out.append((cfg, p, 1 if (slow and len(p) == 3) else b2))
        # a thread reads right after its own write while another thread's read is in flight: a
        # stale refresh result must not overwrite the newer cached one (needs two pre-emptions)
        for sh in range(12 if slow else 1):
            out.append((cfg, (("get_all_trials",), ("finish", "get_all_trials")), 2) + (((sh, 12),) if slow else ()))
        out.append((cfg, (("get_trial",), ("user_attr", "get_trial")), 2))
        # a snapshot taken while another thread does two ordered writes on different trials must
        # not show the second write without the first
        out.append((cfg, (("get_all_dc",), ("finish", "claim")), 1 if tier == "quick" else 2))
    # a snapshot taken while another thread of the same storage object is replaying a record
    out.append(("jlist+snap", (("create_trial",), ("user_attr",)), 2))
    if tier == "thorough":
        out.append(("jlist+snap", (("create_trial", "create_trial"), ("finish", "user_attr2")), 2))
    # two threads of one caching client plus a foreign worker on the same database
    for p in [(("create_waiting",), ("get_all_trials",), ("claim_new", "finish_new")),
              (("create_trial",), ("get_all_trials",), ("finish_new",)),
              (("create_waiting", "get_new"), ("get_waiting",), ("claim_new", "finish_new"))][:2 if tier == "quick" else None]:
        # (bound 2 only for the smallest program: three threads over SQLite cost ~30 ms per schedule)
        out.append(("cached+foreign", p, 2 if (tier == "thorough" and len(p[0]) + len(p[2]) <= 2) else 1))
    # Part B: processes / threads at SQL-statement level on one SQLite file
    for cfg in SQL_CONFIGS:
        bound = 1 if tier == "quick" else 2
        names = NAMES if tier == "thorough" else (QUICK_NAMES if cfg == "rdb-procs" else ["create_trial", "claim", "finish", "user_attr", "get_all_trials", "get_waiting"])
        # processes: the copy is private to the reader; the study-level calls are thread-part only
        names = [n for n in names if n not in ("get_all_dc", "study_attr", "get_studies", "id_from_number")]
        for i, a in enumerate(names):
            for b in names[i:]:
                if a == b and a in NO_SELF_PAIR:
                    continue
                if a.startswith("get_") and b.startswith("get_"):
                    continue
                out.append((cfg, ((a,), (b,)), bound))
        if tier == "thorough":
            for p in [(("create_trial", "user_attr"), ("create_trial", "finish")), (("create_waiting", "claim"), ("claim", "get_waiting")),
                      (("claim",), ("claim",), ("claim",))]:
                out.append((cfg, p, 1))
    # Part D: processes with their own JournalStorage over one (fake) Redis server; every Redis
    # command is a scheduling point; cluster mode appends are INCR then SET (not atomic)
    for cfg in REDIS_CONFIGS:
        names = ["create_trial", "claim", "finish", "user_attr", "create_study", "get_all_trials"]
        if tier == "thorough":
            names = QUICK_NAMES
        for i, a in enumerate(names):
            for b in names[i:]:
                if a.startswith("get_") and b.startswith("get_"):
                    continue
                out.append((cfg, ((a,), (b,)), 2))
        for p in [(("create_trial", "get_all_trials"), ("user_attr", "get_all_trials")),
                  (("create_study", "create_trial"), ("create_study", "get_all_trials")),
                  (("create_trial",), ("user_attr",), ("get_all_trials", "get_all_trials"))]:
            out.append((cfg, p, 2))
    # Part C: processes with their own JournalStorage over one simulated journal file
    for cfg in SIMFS_CONFIGS:
        names = ["create_trial", "create_waiting", "claim", "finish", "user_attr", "set_param", "create_study", "delete_study",
                 "get_all_trials", "get_waiting"]
        if tier == "quick" and cfg.endswith("open"):
            names = ["create_trial", "claim", "finish", "get_all_trials"]
        for i, a in enumerate(names):
            for b in names[i:]:
                if a == b and a in NO_SELF_PAIR:
                    continue
                if a.startswith("get_") and b.startswith("get_"):
                    continue
                out.append((cfg, ((a,), (b,)), 2 if tier == "quick" else 3))
        # a rejected call (duplicate study / write to a finished trial) followed by more records:
        # the issuer's replay raises mid-batch and must still consume the records behind it
        rej = [(("create_study", "create_trial"), ("create_study", "get_all_trials")),
               (("finish", "create_trial"), ("finish", "get_n_trials"))]
        for p in (rej if (tier == "thorough" or cfg.endswith("sym")) else []):
            out.append((cfg, p, 2))
        if tier == "thorough":
            out.append((cfg, (("create_trial", "user_attr"), ("create_trial", "finish")), 2))
            out.append((cfg, (("claim",), ("claim",), ("claim",)), 2))
    return out


class CachedForeignScenario(Scenario):
    """The threads but the last share ONE caching RDB client; the last thread is another worker
    with its own plain RDBStorage connection to the same SQLite file (calls into SQLite are atomic
    steps here: the statement-level interleavings are part B). The final state is read through
    the caching client: a cache entry that went stale for good shows there."""

    def env_config(self) -> str:
        return "cached"

    def worker_storages(self, env: Any, n: int) -> list:
        raw = backends.open_rdb(env.raw_path)
        env._cleanup.append(raw.engine.dispose)
        return [env.storage] * (n - 1) + [raw]


class JlistSnapScenario(Scenario):
    """Threads sharing one JournalStorage over a snapshot-capable backend, with a snapshot after
    every created trial (the module's SNAPSHOT_INTERVAL is rebound to 1 for the run): a worker that
    starts from the latest snapshot plus the tail must see what the live storage sees."""

    def env_config(self) -> str:
        return "jlist"

    def execute(self, ch: Chooser) -> dict:
        import optuna.storages.journal._storage as jm

        old, jm.SNAPSHOT_INTERVAL = jm.SNAPSHOT_INTERVAL, 1
        try:
            return super().execute(ch)
        finally:
            jm.SNAPSHOT_INTERVAL = old

    def after_run(self, env: Any, final: Any) -> dict:
        from .linz import dump

        if env._shared.get("snapshot") is None:
            return {}
        fresh = env.reopen()
        got = dump(fresh)
        return {"diverged": ["snapshot+tail opener"]} if got != final else {}


def build_programs(names: tuple) -> list[list[tuple]]:
    return [[alphabet(ti)[n] for n in prog] for ti, prog in enumerate(names)]


def _res_sig(r: Any) -> str:
    """Coarse, deterministic class of one call's result: error type, small scalars verbatim, and for
    results carrying trials the (state, has values, has completion time) triple of every trial in
    order. Used to tell apart different anomalies of one program pair (known findings name them)."""
    if r[0] == "err":
        return "err:" + str(r[1])
    v = r[1]
    if v is None or isinstance(v, (bool, int, float, str)):
        return repr(v)
    found: list[str] = []

    def walk(x: Any) -> None:
        if isinstance(x, (tuple, list)):
            if len(x) == 2 and x[0] == "state" and isinstance(x[1], str):
                found.append(x[1][0])
                return
            if len(x) == 2 and x[0] == "values":
                found.append("v" if _nonempty(x[1]) else "-")
                return
            if len(x) == 2 and x[0] == "dt_complete":
                found.append("c" if x[1] is not None else "-")
                return
            for y in x:
                walk(y)

    def _nonempty(x: Any) -> bool:
        if x is None:
            return False
        if isinstance(x, (tuple, list)):
            return any(_nonempty(y) or isinstance(y, (int, float)) and not isinstance(y, bool) for y in x if y not in ("l", "d"))
        return isinstance(x, (int, float)) and not isinstance(x, bool)

    walk(v)
    return "".join(found) if found else "obj"


def anomaly_sig(names: tuple, ex: dict) -> str:
    parts = []
    for ti, k, _, _, r in sorted(ex["hist"], key=lambda h: (names[h[0]][h[1]], h[0], h[1])):
        parts.append(f"{names[ti][k]}={_res_sig(r)}")
    parts.append("final=" + _res_sig(("ok", ex["final"])))
    return ",".join(parts)


def scenario_task(task: tuple) -> dict:
    cfg, names, bound = task[:3]
    shard = task[3] if len(task) > 3 else None
    backends.setup_determinism()
    part = Part()
    cache = False
    if cfg in REDIS_CONFIGS:
        from . import thx as _thx

        _thx.set_instrumented([])
        sc = RedisScenario(cfg, "std", build_programs(names))
        engine = "procx-redis"
    elif cfg in SIMFS_CONFIGS:
        from . import thx as _thx

        _thx.set_instrumented([])
        sc = SimfsScenario(cfg, "std", build_programs(names))
        engine = "procx-simfs"
        cache = True
    elif cfg in SQL_CONFIGS:
        from . import thx as _thx

        _thx.set_instrumented([])
        sc = SqlScenario(cfg, "std", build_programs(names))
        engine = "procx-sql"
    elif cfg == "cached+foreign":
        from . import thx as _thx

        _thx.install_copy_points(enabled=False)
        sc = CachedForeignScenario(cfg, "std", build_programs(names), [importlib.import_module(m) for m in THREAD_CONFIGS["cached"]])
        engine = "thx"
    elif cfg == "jlist+snap":
        from . import thx as _thx

        _thx.install_copy_points(enabled=True)
        sc = JlistSnapScenario(cfg, "std", build_programs(names), [importlib.import_module(m) for m in THREAD_CONFIGS["jlist"]])
        engine = "thx"
    else:
        mods = [importlib.import_module(m) for m in THREAD_CONFIGS[cfg]]
        from . import thx as _thx

        # not over SQLite: a copy made inside an open transaction would be a pre-emption point
        # while the real database holds its write lock (the wait is SQLite's, not modelled here)
        _thx.install_copy_points(enabled=cfg != "cached")
        sc = Scenario(cfg, "std", build_programs(names), mods)
        engine = "thx"
    if cfg not in SIMFS_CONFIGS:
        from . import simfs as _simfs

        _simfs.uninstall()  # a pool worker may have run a SimFS scenario before: no patched module may linger
    outcomes: set = set()
    first = {"done": False}

    def on_exec(ch: Chooser, ex: dict) -> None:
        part.add("executions")
        part.add("transitions", ex["steps"])
        if not first["done"]:
            # determinism self-check: the very same schedule again must give the same observations
            ex2 = sc.execute(Chooser(ch.choices))
            if (ex2["hist"], ex2["final"]) != (ex["hist"], ex["final"]):
                raise InternalError(f"replaying one schedule twice differed: {cfg} {names}")
            first["done"] = True
        # the oracle's verdict depends on the results, the final state AND the real-time order of the
        # calls (who had returned before whom was invoked): all three are in the memo key
        before = tuple(sorted((a[0], a[1], b[0], b[1]) for a in ex["hist"] for b in ex["hist"] if a[3] < b[2]))
        sig = (tuple(sorted((ti, k, r) for ti, k, _, _, r in ex["hist"])), ex["final"], before)
        new = sig not in outcomes
        outcomes.add(sig)
        rep = {"engine": engine, "config": cfg, "programs": names, "schedule": ch.choices,
               "history": ex["hist"], "final": ex["final"]}
        if ex["deadlock"]:
            part.violation(f"{engine}|{cfg}|deadlock|{'+'.join('/'.join(p) for p in names)}", rep)
            return
        if ex["errors"]:
            raise InternalError(f"driver error {ex['errors']} in {cfg} {names}")
        if ex.get("diverged"):
            # a worker that has read the whole log must equal a fresh replay of it (C06 meets C03)
            part.violation(f"{engine}|{cfg}|worker-state-differs-from-fresh-replay|{'+'.join('/'.join(p) for p in sorted(names))}",
                           dict(rep, diverged_workers=ex["diverged"]))
            return
        if not new:
            return
        ok, w = sc.linearizable(ex)
        if not ok:
            key = f"{engine}|{cfg}|not-linearizable|{'+'.join('/'.join(p) for p in sorted(names))}"
            if engine == "procx-sql":
                # the SQLite part has open known findings: name the anomaly, so that a different
                # anomaly of the same program pair is still reported
                key += "|" + anomaly_sig(names, ex)
            part.violation(key, rep)

    st = explore(sc.execute, bound, on_exec, cache_states=cache, max_execs=60000, shard=shard)
    if st["capped"]:
        part.add("caps_hit")
    if shard is None or shard[0] == 0:
        part.add("scenarios")
    part.add("states", len({o[:2] for o in outcomes}))  # distinct observable outcomes
    part.add("traces_validated_against_impl", len(sc._seq_cache))
    if len(outcomes) == 1 and len({n for p in names for n in p} & {"get_trial", "get_n_trials", "get_best", "get_all_trials", "get_all_dc", "get_waiting", "get_studies", "id_from_number"}) == 0 and names[0] != names[1 % len(names)]:
        part.note(f"single outcome for {cfg} {names}")
    part.setmax("max_points", st["max_points"])
    if part.cov.get("executions", 0) and len(part.samples) == 0:
        part.sample({"config": cfg, "programs": names, "bound": bound, "executions": st["executions"],
                     "distinct_outcomes": len(outcomes)})
    return part.out()


def replay_case(raw: dict, part: Part) -> None:
    """Re-run exactly one recorded schedule of one scenario and re-check linearizability."""
    backends.setup_determinism()
    backends.sqlite_template()
    cfg, names = raw["config"], raw["programs"]
    if cfg in REDIS_CONFIGS:
        sc: Any = RedisScenario(cfg, "std", build_programs(names))
    elif cfg in SIMFS_CONFIGS:
        sc = SimfsScenario(cfg, "std", build_programs(names))
    elif cfg in SQL_CONFIGS:
        from . import thx as _thx

        _thx.set_instrumented([])
        sc = SqlScenario(cfg, "std", build_programs(names))
    elif cfg == "cached+foreign":
        from . import thx as _thx

        _thx.install_copy_points(enabled=False)
        sc = CachedForeignScenario(cfg, "std", build_programs(names), [importlib.import_module(m) for m in THREAD_CONFIGS["cached"]])
    elif cfg == "jlist+snap":
        from . import thx as _thx

        _thx.install_copy_points(enabled=True)
        sc = JlistSnapScenario(cfg, "std", build_programs(names), [importlib.import_module(m) for m in THREAD_CONFIGS["jlist"]])
    else:
        from . import thx as _thx

        _thx.install_copy_points(enabled=cfg != "cached")
        sc = Scenario(cfg, "std", build_programs(names), [importlib.import_module(m) for m in THREAD_CONFIGS[cfg]])
    ex = sc.execute(Chooser(list(raw["schedule"])))
    print("history:", ex["hist"])
    if ex["deadlock"]:
        part.violation("deadlock", raw)
    elif not sc.linearizable(ex)[0]:
        part.violation("not-linearizable", raw)


def run(tier: str, replay: str | None = None) -> int:
    backends.setup_determinism()
    ctx = Ctx(PID, tier, "model_checking")
    backends.sqlite_template()
    tasks = scenarios(tier)
    only = os.environ.get("VF_CONFIGS")
    if only:
        tasks = [t for t in tasks if t[0] in only.split(",")]
    pmap(ctx, scenario_task, tasks)
    ctx.assumptions += [
        "pre-emption at source-line granularity of the storage-layer file under test (and at lock operations); races confined to one line are not modelled",
        "cached: backend (SQLite) calls are atomic steps here; SQL-statement interleavings are explored by the procx part",
        "sequential reference = the same backend run one call at a time (contract divergences are C01's business)",
    ]
    backends.cleanup_root()
    return ctx.finish(
        exhaustive=not ctx.cov.get("caps_hit"),
        rule="all schedules up to the preemption bound of every unordered pair of the 19-op alphabet (2 threads x 1 op) plus curated 2x2 and 3x1 programs, per configuration; states = distinct observable outcomes",
        extra={"preemption_bound": {"quick": "pairs: mem 2, jlist/grpc(mem)/cached 1; 2x2 and 3x1 programs: 1", "thorough": "pairs: mem 3, others 2; 2x2/3x1: 2 (cached 3x1: 1)"}[tier]},
    )


if __name__ == "__main__":
    main_wrapper(run)
