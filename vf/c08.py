"""C08 - client-side trial caches never serve a view that differs from the backend.

seqx over multi-client histories on one database: A (the cached client under test:
_CachedStorage(RDBStorage) or GrpcStorageProxy), B (a second cached client), R (a raw storage on
the same database, used as third writer AND as the oracle). Reads are operations (they move
watermarks), so the oracle never reads through A itself: after every step a CLONE of A (same
cache state, own connection) answers every getter and is compared with R.
"""
from __future__ import annotations

import copy
import itertools
import os
from typing import Any

from optuna.storages._cached_storage import _CachedStorage
from optuna.study import StudyDirection
from optuna.trial import TrialState

from . import backends
from .backends import Env, make_inproc_proxy, open_rdb
from .core import Ctx, InternalError, Part, main_wrapper, pmap
from .sharness import DISTS, S, template, trial_canon

PID = "C08"
MIN, MAX = StudyDirection.MINIMIZE, StudyDirection.MAXIMIZE


_SEEDED: dict = {}


class World:
    """kind: 'cached' (A,B = _CachedStorage over own RDBStorage objects on one SQLite file, R raw
    RDBStorage), 'grpc(cached)' (A,B = proxies to one server whose backend is _CachedStorage(RDB);
    R raw RDBStorage on the file), 'grpc(mem)' (server backend InMemoryStorage = R)."""

    def __init__(self, kind: str) -> None:
        self.kind = kind
        self.closers: list = []
        if kind == "cached":
            self.path = self._new_file()
            self.R = self._rdb()
            self.A = _CachedStorage(self._rdb())
            self.B = _CachedStorage(self._rdb())
        elif kind == "grpc(cached)":
            self.path = self._new_file()
            self.R = self._rdb()
            self.server_backend = _CachedStorage(self._rdb())
            self.A = make_inproc_proxy(self.server_backend)
            self.B = make_inproc_proxy(self.server_backend)
        elif kind == "grpc(mem)":
            from optuna.storages import InMemoryStorage

            self.path = None
            self.R = InMemoryStorage()
            self.server_backend = self.R
            self.A = make_inproc_proxy(self.R)
            self.B = make_inproc_proxy(self.R)
        else:
            raise ValueError(kind)
        if self.path is not None and _SEEDED.get("path"):
            self.sids = list(_SEEDED["sids"])  # the copied template already holds S1, S2
        else:
            self.sids = [self.R.create_new_study([MIN], "S1"), self.R.create_new_study([MAX], "S2")]
        self.tids: list[int] = []  # trial ids in creation order
        self.dead_sids: list[int] = []

    @staticmethod
    def _new_file() -> str:
        """SQLite file that already contains the two studies (copied from a per-process seed)."""
        import shutil

        if not _SEEDED.get("path") or not os.path.exists(_SEEDED["path"]):
            p = backends.new_sqlite_file()
            r = open_rdb(p)
            _SEEDED["sids"] = [r.create_new_study([MIN], "S1"), r.create_new_study([MAX], "S2")]
            r.engine.dispose()
            _SEEDED["path"] = p
        dst = backends.new_sqlite_file()
        shutil.copyfile(_SEEDED["path"], dst)
        return dst

    def _rdb(self) -> Any:
        r = open_rdb(self.path)
        self.closers.append(r.engine.dispose)
        return r

    def client(self, name: str) -> Any:
        return {"A": self.A, "B": self.B, "R": self.R}[name]

    def clone_A(self) -> Any:
        """A client with A's cache state and its own connection; reading through it does not move
        A's watermarks."""
        if self.kind == "cached":
            c = _CachedStorage(self._rdb())
            for k, v in vars(self.A).items():
                if k in ("_backend", "_lock"):
                    continue
                setattr(c, k, copy.deepcopy(v))
            return c
        c = make_inproc_proxy(self.server_backend)
        c._cache.studies = copy.deepcopy(self.A._cache.studies)
        return c

    def close(self) -> None:
        for f in self.closers:
            try:
                f()
            except Exception:
                pass
        if self.path and os.path.exists(self.path):
            os.unlink(self.path)


def enabled(w: World, tier: str) -> list[tuple]:
    """Operation alphabet in the current state."""
    ops: list[tuple] = []
    n = len(w.tids)
    if n < 3:
        ops += [("create", "A", 0, None), ("create", "A", 0, "comp"), ("create", "A", 0, "bare_wait"), ("create", "A", 1, None),
                ("create", "B", 0, None), ("create", "B", 0, "comp"), ("create", "B", 1, "comp"),
                ("create", "R", 0, None), ("create", "R", 0, "bare_wait")]
    trials = []
    for sid in w.sids:
        try:
            trials += w.R.get_all_trials(sid, deepcopy=False)
        except KeyError:
            pass
    for t in trials:
        if t.state == TrialState.RUNNING:
            ops += [("finish", "A", t._trial_id), ("finish", "B", t._trial_id), ("attr", "B", t._trial_id), ("attr", "A", t._trial_id)]
            if tier == "thorough":
                ops += [("param", "B", t._trial_id), ("iv", "R", t._trial_id)]
        elif t.state == TrialState.WAITING:
            ops += [("claim", "A", t._trial_id), ("claim", "B", t._trial_id)]
    ops += [("read", "A", 0), ("read", "A", 1), ("read", "B", 0)]
    # point reads through A ITSELF (the oracle reads through a clone): a read that leaves something
    # behind in the cache is a state change like any other
    for t in trials[:(2 if tier == "thorough" else 1)]:
        ops += [("lookup", "A", t._trial_id)]
    ops += [("recreate", "R", 0)]
    # the cached client deletes and re-creates the study itself: its own delete must leave no cache
    # entry behind (SQLite re-issues the ids)
    ops += [("recreate", "A", 0)]
    # the study with the LARGEST id: SQLite re-issues exactly that id to the re-created study
    ops += [("recreate", "A", 1), ("recreate", "R", 1)]
    return ops


def apply(w: World, op: tuple) -> None:
    k, who, arg = op[0], op[1], op[2]
    if isinstance(arg, tuple) and arg and arg[0] == "t":
        arg = w.tids[arg[1]]  # symbolic reference: the i-th trial created in this history
    c = w.client(who)
    if k == "create":
        kind = op[3]
        tid = c.create_new_trial(w.sids[arg], template(kind, 1) if kind else None)
        w.tids.append(tid)
    elif k == "finish":
        c.set_trial_state_values(arg, TrialState.COMPLETE, [float(len(w.tids))])
    elif k == "attr":
        c.set_trial_user_attr(arg, "k", who)
    elif k == "param":
        c.set_trial_param(arg, "p", 0.5, DISTS["f"])
    elif k == "iv":
        c.set_trial_intermediate_value(arg, 0, 0.5)
    elif k == "claim":
        c.set_trial_state_values(arg, TrialState.RUNNING)
    elif k == "read":
        c.get_all_trials(w.sids[arg], deepcopy=False)
    elif k == "lookup":
        t = w.R.get_trial(arg)
        sid = next(s for s in w.sids if any(x._trial_id == arg for x in w.R.get_all_trials(s, deepcopy=False)))
        c.get_trial_id_from_study_id_trial_number(sid, t.number)
        c.get_trial(arg)
    elif k == "recreate":
        # a foreign client deletes study 1 and creates it again (SQLite re-issues ids)
        old = w.sids[arg]
        c.delete_study(old)
        w.dead_sids.append(old)
        if who != "A":
            w.foreign_delete = True
        w.sids[arg] = c.create_new_study([MAX], f"S{arg + 1}b")
    else:
        raise ValueError(op)


# Non-initial states: exploration also continues from each of these prefixes (quick: depth 2 below).
SEEDS = {
    "foreign-running-below-watermark": [("create", "R", 0, None), ("create", "B", 0, "comp"), ("read", "A", 0)],
    "own-and-foreign-unread": [("create", "A", 0, None), ("create", "R", 0, None), ("create", "B", 0, "comp")],
    "foreign-waiting-read": [("create", "R", 0, "bare_wait"), ("create", "R", 0, None), ("read", "A", 0)],
    "finished-out-of-order": [("create", "R", 0, None), ("create", "B", 0, None), ("read", "A", 0), ("finish", "B", ("t", 1))],
}


FILTERS = {"none": None, "running": (TrialState.RUNNING,), "waiting": (TrialState.WAITING,),
           "finished": (TrialState.COMPLETE, TrialState.PRUNED, TrialState.FAIL)}


def oc(fn, *a, **k) -> tuple:
    try:
        return ("ok", fn(*a, **k))
    except Exception as e:
        return ("err", type(e).__name__)


def compare(w: World, part: Part, hist: list, config: str) -> bool:
    """Every getter of the statement, through a clone of A, against R at this moment."""
    A = w.clone_A()
    R = w.R
    ok = True
    recreated = bool(w.dead_sids)
    foreign = getattr(w, "foreign_delete", False)

    def fail(clause: str, detail: Any) -> None:
        nonlocal ok
        ok = False
        cls = ("after-foreign-delete+recreate" if foreign else "after-own-delete+recreate") if recreated else "plain"
        last = hist[-1]
        part.violation(f"{config}|{cls}|{clause}|last={last[0]}:{last[1]}",
                       {"config": config, "history": hist, "clause": clause, "detail": detail})

    def point_reads(sid: int, truth: tuple, when: str) -> None:
        for t in truth[1]:
            g = oc(A.get_trial, t._trial_id)
            part.add("getter_answers_compared")
            if g[0] == "err" or trial_canon(g[1], None) != trial_canon(t, None):
                fail(f"get_trial-stale-or-raises{when}", t._trial_id)
            g2 = oc(A.get_trial_id_from_study_id_trial_number, sid, t.number)
            if g2 != ("ok", t._trial_id):
                fail(f"number-lookup-wrong{when}", (t.number, g2))

    # the point getters first: a full read refreshes the cache and would heal a stale entry before
    # it is looked at (they do not touch the cache themselves)
    truths = {sid: oc(R.get_all_trials, sid, deepcopy=False) for sid in w.sids}
    for sid in w.sids:
        if truths[sid][0] == "ok":
            point_reads(sid, truths[sid], "-before-full-read")
    for si, sid in enumerate(w.sids):
        truth = truths[sid]
        for fname, f in FILTERS.items():
            if w.path is not None and fname != "none" and (si, fname) != (0, ("running", "waiting", "finished")[len(hist) % 3]):
                continue  # SQLite-backed (slow): one filtered variant per step, rotating; they share one code path
            got = oc(A.get_all_trials, sid, deepcopy=(fname == "none"), states=f)
            part.add("getter_answers_compared")
            if truth[0] == "err":
                if got[0] != "err":
                    fail(f"get_all_trials[{fname}]-serves-deleted-study", got[0])
                continue
            want = [trial_canon(t, None) for t in truth[1] if f is None or t.state in f]
            if got[0] == "err":
                fail(f"get_all_trials[{fname}]-raises", got[1])
                continue
            gl = [trial_canon(t, None) for t in got[1]]
            if gl != want:
                if sorted(gl) == sorted(want):
                    fail(f"get_all_trials[{fname}]-not-ordered-by-number", "")
                elif len(gl) < len(want):
                    fail(f"get_all_trials[{fname}]-misses-trials", f"{len(gl)} of {len(want)}")
                elif len(gl) > len(want):
                    fail(f"get_all_trials[{fname}]-extra-trials", f"{len(gl)} vs {len(want)}")
                else:
                    fields = sorted({x[0] for a, b in zip(gl, want) for x, y in zip(a, b) if x != y})
                    fail(f"get_all_trials[{fname}]-stale:{','.join(fields)}", "")
        if truth[0] == "ok":
            point_reads(sid, truth, "")
            g3 = oc(A.get_trial_id_from_study_id_trial_number, sid, len(truth[1]))
            if g3[0] != "err":
                fail("number-lookup-serves-nonexistent-number", g3)
        for getter in ("get_study_name_from_id", "get_study_directions"):
            tr = oc(getattr(R, getter), sid)
            g = oc(getattr(A, getter), sid)
            part.add("getter_answers_compared")
            if tr != g:
                fail(f"{getter}-differs", f"{g} vs {tr}")
    return ok


def digest(w: World) -> Any:
    from .canon import state_digest

    # every cache field of A (a field left out here merges states that differ in it: a lookup that
    # only fills the number->id map would look like a no-op and never be extended)
    parts = [state_digest([{k: v for k, v in sorted(vars(w.A).items()) if k not in ("_backend", "_lock", "_stub", "_channel", "_cache")},
                           getattr(getattr(w.A, "_cache", None), "studies", None)]),
             state_digest([vars(w.B).get("_studies"), getattr(getattr(w.B, "_cache", None), "studies", None)])]
    if w.path:
        parts.append(backends.sqlite_dump_digest(w.path))
    else:
        parts.append(state_digest(w.R))
    if w.kind == "grpc(cached)":
        parts.append(state_digest(vars(w.server_backend).get("_studies")))
    return tuple(parts)


def build(kind: str, hist: list) -> World:
    backends.reset_uuid()
    w = World(kind)
    try:
        for op in hist:
            apply(w, op)
    except Exception:
        w.close()
        raise
    return w


def task_fn(task: tuple) -> dict:
    kind, first_idx, depth, tier, second_idx = task
    backends.setup_determinism()
    part = Part()
    if isinstance(first_idx, str):
        return seed_task(kind, first_idx, depth, tier, second_idx, part)
    w0 = build(kind, [])
    ops0 = enabled(w0, tier)
    w0.close()
    if first_idx >= len(ops0):
        return part.out()
    seen: set = set()
    frontier = [[ops0[first_idx]]]
    start = 0
    if second_idx is not None:
        # partition by the first two operations; the depth-1 node itself belongs to partition 0
        try:
            w1 = build(kind, frontier[0])
        except Exception:
            return part.out()
        ops1 = enabled(w1, tier)
        w1.close()
        if second_idx > 0:
            if second_idx - 1 >= len(ops1):
                return part.out()
            frontier = [frontier[0] + [ops1[second_idx - 1]]]
            start = 1
        else:
            depth = 1
    for d in range(start, depth):
        nxt = []
        for hist in frontier:
            try:
                w = build(kind, hist)
            except Exception as e:
                part.violation(f"{kind}|op-raised|{hist[-1][0]}:{type(e).__name__}", {"history": hist, "error": str(e)[:200]})
                continue
            try:
                part.add("transitions")
                good = compare(w, part, hist, kind)
                key = digest(w)
                if not good or key in seen:
                    continue
                seen.add(key)
                if d < depth - 1:
                    for op in enabled(w, tier):
                        nxt.append(hist + [op])
            finally:
                w.close()
        frontier = nxt
    part.add("states", len(seen))
    part.add("traces_validated_against_impl", part.cov.get("transitions", 0))
    part.sample({"config": kind, "first": ops0[first_idx], "depth": depth}, cap=1)
    return part.out()


def replay_case(raw: dict, part: Part) -> None:
    backends.setup_determinism()
    backends.sqlite_template()
    w = build(raw["config"], list(raw["history"]))
    try:
        compare(w, part, list(raw["history"]), raw["config"])
    finally:
        w.close()


def seed_task(kind: str, seed: str, depth: int, tier: str, first: int, part: Part) -> dict:
    """Breadth-first below a seeded prefix; partition = index of the first operation after it."""
    prefix = list(SEEDS[seed])
    w = build(kind, prefix)
    try:
        ops = enabled(w, tier)
        if first == 0:
            part.add("transitions")
            compare(w, part, prefix, kind)
    finally:
        w.close()
    if first >= len(ops):
        return part.out()
    seen: set = set()
    frontier = [prefix + [ops[first]]]
    for d in range(depth):
        nxt = []
        for hist in frontier:
            try:
                w = build(kind, hist)
            except Exception as e:
                part.violation(f"{kind}|op-raised|{hist[-1][0]}:{type(e).__name__}", {"history": hist, "error": str(e)[:200]})
                continue
            try:
                part.add("transitions")
                good = compare(w, part, hist, kind)
                key = digest(w)
                if not good or key in seen:
                    continue
                seen.add(key)
                if d < depth - 1:
                    for op in enabled(w, tier):
                        nxt.append(hist + [op])
            finally:
                w.close()
        frontier = nxt
    part.add("states", len(seen))
    part.add("traces_validated_against_impl", part.cov.get("transitions", 0))
    return part.out()


def run(tier: str, replay: str | None = None) -> int:
    backends.setup_determinism()
    ctx = Ctx(PID, tier, "model_checking")
    backends.sqlite_template()
    tasks = []
    for kind in ("cached", "grpc(cached)", "grpc(mem)"):
        w0 = build(kind, [])
        n0 = len(enabled(w0, tier))
        w0.close()
        depth = {"cached": 3, "grpc(cached)": 2, "grpc(mem)": 3}[kind] + (1 if tier == "thorough" else 0)
        for i in range(n0):
            if depth >= 3:
                for j in range(0, 30):
                    tasks.append((kind, i, depth, tier, j))
            else:
                tasks.append((kind, i, depth, tier, None))
    for kind in ("cached", "grpc(cached)", "grpc(mem)"):
        for seed in SEEDS:
            for i in range(30):
                tasks.append((kind, seed, 2 if tier == "quick" else 3, tier, i))
    only = os.environ.get("VF_CONFIGS")
    if only:
        tasks = [t for t in tasks if t[0] in only.split(",")]
    pmap(ctx, task_fn, tasks)
    ctx.assumptions += [
        "RDB = SQLite on /dev/shm; the gRPC transport is the in-process stub",
        "the oracle reads through a clone of A (deep-copied cache state, own connection), never through A itself",
        "thread interleavings inside one cached client are C03's cached/grpc configurations",
    ]
    backends.cleanup_root()
    return ctx.finish(
        exhaustive=True,
        rule="4 seeded non-initial states (foreign trials below the watermark, out-of-order finishes) + depth 2 (thorough 3); every history of depth 3 (cached, grpc(mem)) / 2 (grpc(cached)); +1 thorough; over create(A/B/R, 2 studies, RUNNING/WAITING/finished), finish/attr by A or B, claim, read by A/B, foreign delete+recreate; de-duplicated on (database, A cache, B cache)",
    )


if __name__ == "__main__":
    main_wrapper(run)
