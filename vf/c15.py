"""C15 - hypervolume, non-domination rank and subset selection are exact.

Bounded-exhaustive enumeration of small integer lattices compared with integer-exact oracles that
share no code with optuna:

* hypervolume (optuna/_hypervolume/wfg.py compute_hypervolume): number of unit cells of the lattice
  that are dominated by some point and lie below the reference point (bit-set union + popcount); a
  second, slower coordinate-compressed-grid oracle (Python ints) cross-checks the bit-set oracle at
  start-up and serves the {0, 1, +inf, -inf} alphabet.
* non-domination rank (optuna/study/_multi_objective.py _fast_non_domination_rank, _is_pareto_front):
  repeated O(n^2) peeling of the Pareto front; with penalties the documented three tiers (feasible
  (penalty <= 0) by objective peeling, then infeasible by increasing penalty, then NaN-penalty by
  objective peeling); exact up to the rank of the n_below-th solution, "strictly worse than that
  rank" beyond it - what the docstring promises.
* subset selection (optuna/_hypervolume/hssp.py _solve_hssp): requested size, distinct members of
  rank_i_indices, exact hypervolume >= (1 - 1/e) * max over ALL subsets of that size.

Mutations of optuna this check must catch. Every one marked [verified] was applied to a scratch
copy of the package (PYTHONPATH override) and the quick tier run against it; the finding keys that
fired are listed. The unmodified tree is silent.

 M1 [verified] wfg._compute_2d: `rect_diag_y = np.append(reference_point[1], sorted_pareto_sols[:-1, 1])`
    -> `sorted_pareto_sols[1:, 1]` (off-by-one in the staircase accumulation)
    => "wfg|d=2|value-mismatch", "wfg(assume_pareto)|d=2|value-mismatch".
 M2 [verified] hssp._solve_hssp: `chosen[duplicated_indices[: subset_size - n_unique]] = True`
    -> `[: subset_size - n_unique - 1]` (duplicate filling when n_unique < subset_size)
    => "hssp|d=1..5|wrong-size".
 M3 [verified] _multi_objective._is_pareto_front_nd: `np.any(loss_values < loss_values[0], axis=1)`
    -> `<=`. The top row then always survives its own filter and the peeling loop never ends; every
    optuna call runs under a 5 CPU-second interval timer => "wfg|d=3|hang", "wfg|d=4|hang", "wfg|d=5|hang".
 M4 [verified] _multi_objective._is_pareto_front_2d: `cummin_value1[1:] < cummin_value1[:-1]` -> `<=`
    => "pareto_front|d=2|mismatch", "rank|d=2|exact-part-mismatch", "rank|d=2|tail-not-worse", "rank(penalty)|d=2|*",
    "wfg|d=2|value-mismatch".
 M5 [verified] _multi_objective._fast_non_domination_rank: tiers in the wrong order (NaN-penalty
    trials ranked before the infeasible ones)
    => "rank(penalty)|d=1..3|exact-part-mismatch", "rank(penalty)|d=1..3|tail-not-worse".
 M6 [verified] hssp._solve_hssp_on_unique_loss_vals: the line `rank_i_loss_vals = rank_i_loss_vals[keep]`
    dropped (candidates and contributions misaligned) => "hssp|d=3|below-(1-1/e)-bound", same d=5.
 M7 [verified] hssp._solve_hssp: `return rank_i_indices[selected_indices_of_unique_loss_vals]` ->
    `return selected_indices_of_unique_loss_vals` (positions instead of trial indices; the check
    passes gapped indices 3,5,7,..) => "hssp|d=1..5|not-a-member".
 M8 [verified] wfg._compute_hv: `limited_sols_array[i, i + 1 :]` -> `[i, i + 2 :]`
    => "wfg|d=3..5|value-mismatch", "wfg(assume_pareto)|d=1,3,4,5|value-mismatch".

 Greedy steps that are not maximal (hssp._lazy_contribs_update `<` -> `<=`; _solve_hssp_2d with the
 rect_diags update shifted, removed or overwritten) still reach (1 - 1/e) of the optimum on every
 small-lattice input (worst ratio seen 0.68): they are caught on the multisets with dominated points
 (w_hsspg) and on the `ladder` family (w_ladder: geometric ladder fronts with boosted rungs and
 near-duplicate clusters, up to 10 points, exact integer coordinates), where seed C15_c drops to
 0.40-0.57 of the optimum.
"""
from __future__ import annotations

import itertools
import json
import math
import os
import signal
import warnings
from fractions import Fraction
from typing import Any, Callable, Iterator, Sequence

# One BLAS thread per worker process: the arrays are tiny and 16 forked workers with a thread pool each
# only fight for the cores (measured: 2x wall time). Must happen before numpy is first imported.
for _v in ("OPENBLAS_NUM_THREADS", "OMP_NUM_THREADS", "MKL_NUM_THREADS"):
    os.environ.setdefault(_v, "1")

import numpy as np  # noqa: E402

from .core import Ctx, InternalError, Part, main_wrapper, pmap

PID = "C15"
INF = float("inf")
NAN = float("nan")

# Bounds of e for the integer-exact decision of  hv >= (1 - 1/e) * best  <=>  e * (best - hv) <= best.
E_LO = Fraction(2718281828, 10**9)
E_HI = Fraction(2718281829, 10**9)

# Offsets used for rank_i_indices (gapped, so that a position returned instead of an index shows).
IDX_BASE, IDX_STEP = 3, 2

PENS = [NAN, -1.0, 0.0, 1.0, 2.0]  # per-point penalties; penalty=None (whole array) is the plain case

RULE = ("non-trivial = at least 2 points and at least one duplicate, one per-coordinate tie between "
        "distinct points, or one dominated point (HSSP cases: additionally 1 <= subset_size < n and at "
        "least 2 distinct points); counted per evaluated (function, points, order, reference point, "
        "flags) case, every case is evaluated once")


# ------------------------------------------------------------------------------------------------
# optuna entry points (imported lazily so that PYTHONPATH overrides are visible in the evidence)
# ------------------------------------------------------------------------------------------------
_FNS: tuple | None = None


def _optuna() -> tuple:
    global _FNS
    if _FNS is None:
        _FNS = _optuna_import()
    return _FNS


def _optuna_import() -> tuple:
    from optuna._hypervolume import compute_hypervolume
    from optuna._hypervolume.hssp import _solve_hssp
    from optuna.study._multi_objective import _fast_non_domination_rank, _is_pareto_front

    return compute_hypervolume, _solve_hssp, _fast_non_domination_rank, _is_pareto_front


# ------------------------------------------------------------------------------------------------
# oracles
# ------------------------------------------------------------------------------------------------
def dominates(a: Sequence[float], b: Sequence[float]) -> bool:
    """a strictly dominates b (minimisation)."""
    return all(x <= y for x, y in zip(a, b)) and any(x < y for x, y in zip(a, b))


def hv_grid(points: Sequence[Sequence[int]], ref: Sequence[int]) -> int:
    """Exact volume of the union of the boxes [p, ref] (finite integer coordinates, p <= ref):
    sum of the volumes of the cells of the coordinate-compressed grid whose lower corner is weakly
    dominated by some point."""
    d = len(ref)
    axes = []
    for k in range(d):
        axes.append(sorted({p[k] for p in points} | {ref[k]}))
    total = 0
    for cell in itertools.product(*[range(len(a) - 1) for a in axes]):
        lo = [axes[k][cell[k]] for k in range(d)]
        if any(all(p[k] <= lo[k] for k in range(d)) for p in points):
            vol = 1
            for k in range(d):
                vol *= axes[k][cell[k] + 1] - axes[k][cell[k]]
            total += vol
    return total


def box_class(p: Sequence[float], ref: Sequence[float]) -> str:
    """'finite' | 'inf' | 'indet' for the box [p, ref] on the extended reals (p <= ref).
    'inf': every width is > 0 and one is infinite (unbounded volume under every reading).
    'indet': a width of the form inf - inf (p_k == ref_k == +-inf), or a zero width next to an
    infinite one (0 * inf): Lebesgue measure says 0, optuna's documented convention says inf."""
    zero = infw = same_inf = False
    for x, r in zip(p, ref):
        if x == r:
            if math.isinf(x):
                same_inf = True
            else:
                zero = True
        elif math.isinf(x) or math.isinf(r):
            infw = True
    if same_inf or (zero and infw):
        return "indet"
    return "inf" if infw else "finite"


def hv_ext(points: Sequence[Sequence[float]], ref: Sequence[float]) -> tuple[str, float]:
    """(kind, value) for the extended alphabet. kind 'inf': value inf. kind 'finite': exact value.
    kind 'indet': some box is indeterminate and none is definitely infinite; value = volume of the
    finite boxes (the Lebesgue reading) - the caller accepts that value or inf."""
    kinds = [box_class(p, ref) for p in points]
    if "inf" in kinds:
        return "inf", INF
    fin = [tuple(int(x) for x in p) for p, k in zip(points, kinds) if k == "finite"]
    val = hv_grid(fin, tuple(int(x) for x in ref)) if fin else 0
    return ("indet" if "indet" in kinds else "finite"), val


def peel(idx: Sequence[int], domby: Sequence[int]) -> list[int]:
    """Non-domination ranks by repeated peeling; idx are point numbers, domby[i] = bit set of the
    point numbers that strictly dominate point i."""
    n = len(idx)
    ranks = [-1] * n
    rem = list(range(n))
    r = 0
    while rem:
        m = 0
        for j in rem:
            m |= 1 << idx[j]
        front = [j for j in rem if not domby[idx[j]] & m]
        if not front:
            raise InternalError("peeling found an empty front")
        for j in front:
            ranks[j] = r
        rem = [j for j in rem if ranks[j] < 0]
        r += 1
    return ranks


def tier_ranks(idx: Sequence[int], domby: Sequence[int], pens: Sequence[float]) -> list[int]:
    """The documented three-tier rule of _fast_non_domination_rank."""
    n = len(idx)
    feas = [j for j in range(n) if not math.isnan(pens[j]) and pens[j] <= 0]
    infe = [j for j in range(n) if not math.isnan(pens[j]) and pens[j] > 0]
    nans = [j for j in range(n) if math.isnan(pens[j])]
    out = [-1] * n
    off = 0
    if feas:
        rr = peel([idx[j] for j in feas], domby)
        for j, r in zip(feas, rr):
            out[j] = r
        off = max(rr) + 1
    if infe:
        vals = sorted({pens[j] for j in infe})
        for j in infe:
            out[j] = off + vals.index(pens[j])
        off += len(vals)
    if nans:
        rr = peel([idx[j] for j in nans], domby)
        for j, r in zip(nans, rr):
            out[j] = off + r
    return out


def rank_verdict(true: Sequence[int], got: Sequence[int], nb: int | None) -> str | None:
    """Exact up to the rank K of the n_below-th best solution; strictly greater than K beyond."""
    k = max(true) if nb is None else sorted(true)[nb - 1]
    for t, g in zip(true, got):
        if t <= k:
            if g != t:
                return "exact-part-mismatch"
        elif not g > k:
            return "tail-not-worse"
    return None


def ge_bound(hv: float, best: float) -> bool:
    """hv >= (1 - 1/e) * best, decided exactly for integers (and for inf)."""
    if best == INF:
        return hv == INF
    if hv == INF:
        raise InternalError("subset hypervolume inf but the maximum over subsets is finite")
    g = best - hv
    if g < 0:
        raise InternalError("oracle: selected subset better than the exhaustive maximum")
    if g * E_HI <= best:
        return True
    if g * E_LO > best:
        return False
    raise InternalError("cannot decide the (1-1/e) bound exactly")


# ------------------------------------------------------------------------------------------------
# alphabets
# ------------------------------------------------------------------------------------------------
class Alpha:
    """All points values^d with dominance / tie bit sets."""

    def __init__(self, d: int, values: Sequence[float]):
        self.d = d
        self.values = list(values)
        self.pts = list(itertools.product(self.values, repeat=d))
        self.N = len(self.pts)
        self.arr = np.array(self.pts, dtype=float)
        self.domby = [0] * self.N
        self.comp = [0] * self.N
        self.tie = [0] * self.N
        for i, p in enumerate(self.pts):
            for j, q in enumerate(self.pts):
                if i == j:
                    continue
                if dominates(q, p):
                    self.domby[i] |= 1 << j
                    self.comp[i] |= 1 << j
                    self.comp[j] |= 1 << i
                if any(x == y for x, y in zip(p, q)):
                    self.tie[i] |= 1 << j

    def features(self, idx: Sequence[int]) -> tuple[bool, bool, bool]:
        m = 0
        for i in idx:
            m |= 1 << i
        dup = len(set(idx)) < len(idx)
        dom = any(self.domby[i] & m for i in idx)
        tie = any(self.tie[i] & m for i in idx)
        return dup, tie, dom


class Lat(Alpha):
    """{0..m}^d with the unit-cell bit sets for the hypervolume oracle."""

    def __init__(self, d: int, m: int):
        super().__init__(d, list(range(m + 1)))
        self.m = m
        # cell number c = point number of its lower corner
        self.D = []
        for p in self.pts:
            mask = 0
            for ci, c in enumerate(self.pts):
                if all(c[k] >= p[k] for k in range(d)):
                    mask |= 1 << ci
            self.D.append(mask)
        self._R: dict[tuple, int] = {}

    def refmask(self, ref: tuple) -> int:
        r = self._R.get(ref)
        if r is None:
            r = 0
            for ci, c in enumerate(self.pts):
                if all(c[k] < ref[k] for k in range(self.d)):
                    r |= 1 << ci
            self._R[ref] = r
        return r

    def hv(self, idx: Sequence[int], ref: tuple) -> int:
        u = 0
        for i in idx:
            u |= self.D[i]
        return (u & self.refmask(ref)).bit_count()


_LATS: dict[tuple, Any] = {}


def get_lat(d: int, m: int) -> Lat:
    k = ("lat", d, m)
    if k not in _LATS:
        _LATS[k] = Lat(d, m)
    return _LATS[k]


def get_alpha(d: int, values: tuple) -> Alpha:
    k = ("alpha", d, values)
    if k not in _LATS:
        _LATS[k] = Alpha(d, values)
    return _LATS[k]


def multiset_shard(N: int, n: int, shard: int, nshards: int) -> Iterator[tuple]:
    for j, idx in enumerate(itertools.combinations_with_replacement(range(N), n)):
        if j % nshards == shard:
            yield idx


def antichains(al: Alpha, nmax: int) -> Iterator[tuple]:
    """Every mutually non-dominated multiset (non-decreasing point numbers) of 1..nmax points."""
    N = al.N

    def rec(prefix: tuple, start: int, banned: int) -> Iterator[tuple]:
        for i in range(start, N):
            if (banned >> i) & 1:
                continue
            cur = prefix + (i,)
            yield cur
            if len(cur) < nmax:
                yield from rec(cur, i, banned | al.comp[i])

    yield from rec((), 0, 0)


def orders(idx: tuple, full: bool = True) -> list[tuple]:
    """Input orders of one multiset. full: every distinct permutation for n <= 3, otherwise four
    fixed ones (sorted, reversed, rotated, odd/even interleaved). Not full: sorted + rotated for
    n <= 3; sorted + interleaved otherwise."""
    n = len(idx)
    if n <= 3 and full:
        cand = [tuple(idx[j] for j in p) for p in itertools.permutations(range(n))]
    elif n <= 3:
        cand = [tuple(idx), tuple(idx[1:] + idx[:1])]
    else:
        b = list(idx)
        cand = [tuple(b), tuple(b[::-1]), tuple(b[n // 2:] + b[:n // 2]), tuple(b[1::2] + b[0::2])]
        if not full:
            cand = [cand[0], cand[3]]
    out, seen = [], set()
    for c in cand:
        if c not in seen:
            seen.add(c)
            out.append(c)
    return out


# ------------------------------------------------------------------------------------------------
# single-case checkers (shared by the enumeration and by --replay)
# ------------------------------------------------------------------------------------------------
HANG_S = 5.0  # CPU seconds of this process (ITIMER_VIRTUAL: immune to a loaded machine); a legal call takes < 1 ms


class Hang(BaseException):
    """Raised by the interval timer inside an optuna call that does not return."""


class AbortTask(Exception):
    """The rest of a worker's shard is skipped after a hang (each further hang would cost HANG_S)."""


def _on_alarm(signum: int, frame: Any) -> None:
    raise Hang()


def call(fn: Callable, *a: Any, **k: Any) -> tuple[str, Any]:
    signal.setitimer(signal.ITIMER_VIRTUAL, HANG_S)
    try:
        return "ok", fn(*a, **k)
    except Hang:
        return "hang", f"Hang: no return within {HANG_S} CPU-seconds"
    except Exception as e:  # a legal input must not raise
        return "err", f"{type(e).__name__}: {e}"[:200]
    finally:
        signal.setitimer(signal.ITIMER_VIRTUAL, 0)


def failed_call(part: Part, fnname: str, d: int, st: str, got: str, rep: dict) -> None:
    if st == "hang":
        part.violation(f"{fnname}|d={d}|hang", rep)
        raise AbortTask()
    part.violation(f"{fnname}|d={d}|exception:{got.split(':')[0]}", rep)


def check_hv_value(part: Part, fnname: str, d: int, pts: Sequence[Sequence[float]], ref: Sequence[float],
                   assume_pareto: bool, kind: str, exp: float, nontrivial: bool) -> None:
    compute_hypervolume = _optuna()[0]
    arr = np.array(pts, dtype=float).reshape(len(pts), d)
    st, got = call(compute_hypervolume, arr, np.array(ref, dtype=float), assume_pareto)
    part.add("evaluations")
    part.add(f"{fnname}_cases")
    if nontrivial:
        part.add("distinct_nontrivial")
    rep = {"fn": "compute_hypervolume", "points": [list(p) for p in pts], "reference_point": list(ref),
           "assume_pareto": assume_pareto, "expected": exp, "expected_kind": kind, "observed": got}
    if st != "ok":
        failed_call(part, fnname, d, st, got, rep)
        return
    got = float(got)
    rep["observed"] = got
    if kind == "inf":
        if got != INF:
            part.violation(f"{fnname}|d={d}|inf-expected", rep)
        return
    if kind == "indet":
        # optuna's convention (inf) and the Lebesgue reading (volume of the finite boxes) both accepted
        part.add("hv_indeterminate_cases")
        if got == INF:
            part.add("hv_indeterminate_returned_inf")
        elif got == exp:
            part.add("hv_indeterminate_returned_finite")
        else:
            part.violation(f"{fnname}|d={d}|indeterminate-neither-inf-nor-finite-part", rep)
        return
    if math.isnan(got) or math.isinf(got) or got != math.floor(got):
        part.violation(f"{fnname}|d={d}|non-integral", rep)
    elif got != exp:
        part.violation(f"{fnname}|d={d}|value-mismatch", rep)


def check_rank(part: Part, d: int, pts: Sequence[Sequence[float]], pens: Sequence[float] | None,
               nb: int | None, true: Sequence[int], nontrivial: bool) -> None:
    fast_rank = _optuna()[2]
    arr = np.array(pts, dtype=float).reshape(len(pts), d)
    fnname = "rank" if pens is None else "rank(penalty)"
    kw: dict[str, Any] = {"n_below": nb}
    if pens is not None:
        kw["penalty"] = np.array(pens, dtype=float)
    st, got = call(fast_rank, arr, **kw)
    part.add("evaluations")
    part.add(f"{fnname}_cases")
    if nontrivial:
        part.add("distinct_nontrivial")
    rep = {"fn": "_fast_non_domination_rank", "points": [list(p) for p in pts],
           "penalty": None if pens is None else list(pens), "n_below": nb, "expected": list(true), "observed": got}
    if st != "ok":
        failed_call(part, fnname, d, st, got, rep)
        return
    got = np.asarray(got)
    rep["observed"] = got.tolist()
    if got.shape != (len(pts),) or got.dtype.kind not in "iu":
        part.violation(f"{fnname}|d={d}|bad-shape-or-dtype", rep)
        return
    v = rank_verdict(true, got.tolist(), nb)
    if v:
        part.violation(f"{fnname}|d={d}|{v}", rep)


def check_front(part: Part, d: int, pts: Sequence[Sequence[float]], assume_unique_lexsorted: bool,
                true_front: Sequence[bool], nontrivial: bool) -> None:
    is_pareto_front = _optuna()[3]
    arr = np.array(pts, dtype=float).reshape(len(pts), d)
    st, got = call(is_pareto_front, arr, assume_unique_lexsorted=assume_unique_lexsorted)
    part.add("evaluations")
    part.add("pareto_front_cases")
    if nontrivial:
        part.add("distinct_nontrivial")
    rep = {"fn": "_is_pareto_front", "points": [list(p) for p in pts],
           "assume_unique_lexsorted": assume_unique_lexsorted, "expected": list(true_front), "observed": got}
    if st != "ok":
        failed_call(part, "pareto_front", d, st, got, rep)
        return
    got = np.asarray(got)
    rep["observed"] = got.tolist()
    if got.shape != (len(pts),) or got.tolist() != [bool(x) for x in true_front]:
        part.violation(f"pareto_front|d={d}|mismatch", rep)


def check_hssp(part: Part, d: int, pts: Sequence[Sequence[float]], ref: Sequence[float], k: int,
               hv_of: Callable[[Sequence[int]], float] | None, nontrivial: bool) -> None:
    """hv_of(positions) -> exact hypervolume of that sub-multiset, or None when only the structural
    part (size, membership, distinctness) is decidable."""
    solve = _optuna()[1]
    n = len(pts)
    arr = np.array(pts, dtype=float).reshape(n, d)
    ids = IDX_BASE + IDX_STEP * np.arange(n)
    st, got = call(solve, arr, ids, k, np.array(ref, dtype=float))
    part.add("evaluations")
    part.add("hssp_cases")
    if nontrivial:
        part.add("distinct_nontrivial")
    rep = {"fn": "_solve_hssp", "points": [list(p) for p in pts], "rank_i_indices": ids.tolist(),
           "subset_size": k, "reference_point": list(ref), "observed": got}
    if st != "ok":
        failed_call(part, "hssp", d, st, got, rep)
        return
    got = np.asarray(got)
    sel = got.tolist() if got.ndim == 1 else None
    rep["observed"] = got.tolist()
    if sel is None or len(sel) != k:
        part.violation(f"hssp|d={d}|wrong-size", rep)
        return
    idset = set(ids.tolist())
    if any((not isinstance(s, int)) or s not in idset for s in sel):
        part.violation(f"hssp|d={d}|not-a-member", rep)
        return
    if len(set(sel)) != k:
        part.violation(f"hssp|d={d}|duplicate-index", rep)
        return
    if hv_of is None:
        part.add("hssp_structural_only")
        return
    pos = [(s - IDX_BASE) // IDX_STEP for s in sel]
    hv_sel = hv_of(pos)
    best = max(hv_of(c) for c in itertools.combinations(range(n), k))
    rep["selected_hypervolume"] = hv_sel
    rep["best_hypervolume_of_that_size"] = best
    if hv_sel == best:
        part.add("hssp_optimal")
    if not ge_bound(hv_sel, best):
        part.violation(f"hssp|d={d}|below-(1-1/e)-bound", rep)


# ------------------------------------------------------------------------------------------------
# workers
# ------------------------------------------------------------------------------------------------
def _quiet() -> None:
    warnings.simplefilter("ignore")
    np.seterr(all="ignore")
    signal.signal(signal.SIGVTALRM, _on_alarm)


def w_lat(task: tuple, part: Part) -> None:
    """HV (assume_pareto False; True on antichains in several orders), ranks for every n_below and
    several orders, Pareto-front masks - for every multiset of n points of {0..m}^d in this shard."""
    _, d, m, n, shard, nshards, full_orders = task
    _quiet()
    lat = get_lat(d, m)
    refbits = list(itertools.product((0, 1), repeat=d))
    for idx in multiset_shard(lat.N, n, shard, nshards):
        dup, tie, dom = lat.features(idx)
        nontriv = n >= 2 and (dup or tie or dom)
        part.add("point_multisets")
        if dup:
            part.add("multisets_with_duplicates")
        if tie:
            part.add("multisets_with_coordinate_ties")
        if dom:
            part.add("multisets_with_dominated_points")
        pts = [lat.pts[i] for i in idx]
        mx = [max(p[k] for p in pts) for k in range(d)]
        ords = orders(idx, full_orders)
        # hypervolume
        for ri, bits in enumerate(refbits):
            ref = tuple(mx[k] + bits[k] for k in range(d))
            exp = lat.hv(idx, ref)
            if any(b == 0 for b in bits):
                part.add("hv_cases_with_point_on_reference_boundary")
            o = idx if ri % 2 == 0 else idx[::-1]
            check_hv_value(part, "wfg", d, [lat.pts[i] for i in o], ref, False, "finite", exp, nontriv)
            if not dom:
                for o in ords:
                    check_hv_value(part, "wfg(assume_pareto)", d, [lat.pts[i] for i in o], ref, True,
                                   "finite", exp, nontriv)
        # ranks and fronts
        true_sorted = peel(idx, lat.domby)
        uniq = sorted(set(idx))
        check_front(part, d, [lat.pts[i] for i in uniq], True, [r == 0 for r in peel(uniq, lat.domby)], nontriv)
        pos_of: dict[int, list[int]] = {}
        for j, i in enumerate(idx):
            pos_of.setdefault(i, []).append(j)
        for oi, o in enumerate(ords):
            true = [true_sorted[pos_of[i][0]] for i in o]  # rank depends on the point only
            opts = [lat.pts[i] for i in o]
            check_front(part, d, opts, False, [r == 0 for r in true], nontriv)
            # every n_below on every order; in the reduced-order configurations every n_below on the
            # sorted order and {None, max(1, n // 2)} on the other ones
            nbs = [None] + list(range(1, n + 1)) if (full_orders or oi == 0) else [None, max(1, n // 2)]
            for nb in nbs:
                check_rank(part, d, opts, None, nb, true, nontriv)
        if dup and dom and shard == 0 and len(set(idx)) >= 2:
            part.sample({"fn": "compute_hypervolume/_fast_non_domination_rank", "d": d, "points": pts,
                         "reference_points": "{max,max+1}^d of " + str(mx), "ranks": true_sorted}, cap=1)


def w_pen(task: tuple, part: Part) -> None:
    """Constrained ranks: every penalty vector over {nan,-1,0,1,2}^n, every n_below, sorted and
    reversed input order, for every multiset of n points of {0..m}^d in this shard."""
    _, d, m, n, shard, nshards, both = task
    _quiet()
    lat = get_lat(d, m)
    for idx in multiset_shard(lat.N, n, shard, nshards):
        dup, tie, dom = lat.features(idx)
        nontriv = n >= 2 and (dup or tie or dom)
        for o in ([idx, idx[::-1]] if both and idx != idx[::-1] else [idx]):
            opts = [lat.pts[i] for i in o]
            for pj in itertools.product(range(len(PENS)), repeat=n):
                pens = [PENS[j] for j in pj]
                true = tier_ranks(o, lat.domby, pens)
                part.add("penalty_vectors")
                for nb in [None] + list(range(1, n + 1)):
                    check_rank(part, d, opts, pens, nb, true, nontriv)
            if dom and shard == 0:
                part.sample({"fn": "_fast_non_domination_rank(penalty)", "d": d, "points": opts,
                             "penalty": [NAN, 1.0, 0.0, 2.0, -1.0][:n],
                             "expected": tier_ranks(o, lat.domby, [NAN, 1.0, 0.0, 2.0, -1.0][:n])}, cap=1)


def w_hssp(task: tuple, part: Part) -> None:
    """_solve_hssp on every mutually non-dominated multiset of <= nmax points of {0..m}^d (this
    shard), every subset size 1..n, every reference point in {max,max+1}^d, several input orders."""
    _, d, m, nmax, shard, nshards, full_orders = task
    _quiet()
    lat = get_lat(d, m)
    refbits = list(itertools.product((0, 1), repeat=d))
    for j, idx in enumerate(antichains(lat, nmax)):
        if j % nshards != shard:
            continue
        n = len(idx)
        dup, tie, dom = lat.features(idx)
        if dom:
            raise InternalError("antichain generator produced a dominated point")
        part.add("nondominated_multisets")
        n_uniq = len(set(idx))
        pts0 = [lat.pts[i] for i in idx]
        mx = [max(p[k] for p in pts0) for k in range(d)]
        for o in orders(idx, full_orders):
            opts = [lat.pts[i] for i in o]
            for bits in refbits:
                ref = tuple(mx[k] + bits[k] for k in range(d))
                rm = lat.refmask(ref)
                masks = [lat.D[i] & rm for i in o]

                def hv_of(pos: Sequence[int], masks: list = masks) -> int:
                    u = 0
                    for q in pos:
                        u |= masks[q]
                    return u.bit_count()

                for k in range(1, n + 1):
                    nontriv = n >= 2 and (dup or tie) and k < n and n_uniq >= 2
                    if n_uniq < k < n:
                        part.add("hssp_cases_fewer_unique_than_subset_size")
                    check_hssp(part, d, opts, ref, k, hv_of, nontriv)
        if n >= 3 and n_uniq >= min(3, d + 1) and shard == 0:
            part.sample({"fn": "_solve_hssp", "d": d, "points": pts0, "subset_sizes": f"1..{n}",
                         "reference_points": "{max,max+1}^d of " + str(mx)}, cap=1)


def w_hsspg(task: tuple, part: Part) -> None:
    """_solve_hssp on every multiset of exactly n points of {0..m}^d (this shard) that contains at
    least one DOMINATED point (the antichains are covered by w_hssp): the statement quantifies over
    point sets with dominated points, and the greedy (1-1/e) guarantee holds for any input."""
    _, d, m, n, shard, nshards, full_orders = task
    _quiet()
    lat = get_lat(d, m)
    refbits = list(itertools.product((0, 1), repeat=d))
    for idx in multiset_shard(lat.N, n, shard, nshards):
        dup, tie, dom = lat.features(idx)
        if not dom:
            continue
        part.add("multisets_with_dominated_points")
        pts0 = [lat.pts[i] for i in idx]
        mx = [max(p[k] for p in pts0) for k in range(d)]
        for o in orders(idx, full_orders):
            opts = [lat.pts[i] for i in o]
            for bits in refbits:
                ref = tuple(mx[k] + bits[k] for k in range(d))
                rm = lat.refmask(ref)
                masks = [lat.D[i] & rm for i in o]

                def hv_of(pos: Sequence[int], masks: list = masks) -> int:
                    u = 0
                    for q in pos:
                        u |= masks[q]
                    return u.bit_count()

                for k in range(1, n):
                    check_hssp(part, d, opts, ref, k, hv_of, True)


def _ext_refs(mx: Sequence[float], wide: bool) -> list[tuple]:
    """Reference points weakly dominated by the set, over the extended alphabet."""
    per = []
    for v in mx:
        if v == INF:
            per.append([INF])
        elif v == -INF:
            per.append([-INF, 0.0, INF] if wide else [0.0, INF])
        else:
            per.append([v, v + 1.0, INF] if wide else [v, v + 1.0])
    return list(itertools.product(*per))


def w_inf(task: tuple, part: Part) -> None:
    """The alphabet {0,1,+inf,-inf}: HV (definitely-infinite boxes => inf, finite => exact,
    indeterminate 0*inf / inf-inf => inf or finite part accepted), ranks / fronts (dominance is
    well defined on the extended reals), HSSP on antichains."""
    _, d, values, n, shard, nshards, wide = task
    _quiet()
    al = get_alpha(d, values)
    for idx in multiset_shard(al.N, n, shard, nshards):
        dup, tie, dom = al.features(idx)
        nontriv = n >= 2 and (dup or tie or dom)
        part.add("extended_point_multisets")
        pts = [al.pts[i] for i in idx]
        mx = [max(p[k] for p in pts) for k in range(d)]
        ords = orders(idx, False) if n > 2 else orders(idx)
        refs = _ext_refs(mx, wide)
        for ri, ref in enumerate(refs):
            kind, exp = hv_ext(pts, ref)
            o = idx if ri % 2 == 0 else idx[::-1]
            check_hv_value(part, "wfg", d, [al.pts[i] for i in o], ref, False, kind, exp, nontriv)
            if not dom:
                for o in ords:
                    opts = [al.pts[i] for i in o]
                    check_hv_value(part, "wfg(assume_pareto)", d, opts, ref, True, kind, exp, nontriv)
                # HSSP: value bound only when every box is classifiable and the reference point finite
                classes = [box_class(p, ref) for p in pts]
                decidable = all(math.isfinite(r) for r in ref) and "indet" not in classes
                for o in ords[:2]:
                    opts = [al.pts[i] for i in o]

                    def hv_of(pos: Sequence[int], opts: list = opts, ref: tuple = ref) -> float:
                        return hv_ext([opts[q] for q in pos], ref)[1]

                    for k in range(1, n + 1):
                        check_hssp(part, d, opts, ref, k, hv_of if decidable else None,
                                   nontriv and k < n and len(set(idx)) >= 2)
        true_sorted = peel(idx, al.domby)
        pos_of: dict[int, int] = {}
        for j, i in enumerate(idx):
            pos_of.setdefault(i, j)
        uniq = sorted(set(idx), key=lambda i: tuple(al.pts[i]))  # lexsorted as np.unique would
        check_front(part, d, [al.pts[i] for i in uniq], True, [r == 0 for r in peel(uniq, al.domby)], nontriv)
        for o in ords:
            true = [true_sorted[pos_of[i]] for i in o]
            opts = [al.pts[i] for i in o]
            check_front(part, d, opts, False, [r == 0 for r in true], nontriv)
            for nb in [None] + list(range(1, n + 1)):
                check_rank(part, d, opts, None, nb, true, nontriv)
        if shard == 0 and dom and any(x == -INF for p in pts for x in p):
            part.sample({"fn": "extended alphabet", "d": d, "points": pts, "ranks": true_sorted}, cap=1)


def ladder_fronts(r: int, m: int) -> Iterator[list[tuple[int, int]]]:
    """2-d fronts on a geometric ladder (box sides (r^(m-j), r^j) * S, all boxes of equal area),
    where up to two rungs are boosted (v * 5/4, or v * 5/4 * 1025/1024) and up to two rungs carry
    one or two near-duplicates on their left or right side (relative offset t * 2^-10): scale
    separation plus near-duplicate clusters is the input shape on which a greedy selection with a
    wrong contribution update loses most. All coordinates are exact integers (S = 2^22)."""
    S = 1 << 22
    rungs = range(m + 1)
    boosts = [()] + [((j, b),) for j in rungs for b in (1, 2)] + \
        [((j1, b1), (j2, b2)) for j1, j2 in itertools.combinations(rungs, 2) for b1 in (1, 2) for b2 in (1, 2)]
    dupopts = [("L", 1), ("L", 2), ("R", 1), ("R", 2)]
    dups = [()] + [((j, o),) for j in rungs for o in dupopts] + \
        [((j1, o1), (j2, o2)) for j1, j2 in itertools.combinations(rungs, 2) for o1 in dupopts for o2 in dupopts]
    for bs in boosts:
        bd = dict(bs)
        for ds in dups:
            dd = dict(ds)
            sides: list[tuple[int, int]] = []
            for j in rungs:
                u, v = r ** (m - j) * S, r ** j * S
                b = bd.get(j, 0)
                if b >= 1:
                    v = v * 5 // 4
                if b == 2:
                    v = v * 1025 // 1024
                cluster = [(u, v)]
                if j in dd:
                    side, cnt = dd[j]
                    for t in range(1, cnt + 1):
                        if side == "L":  # larger u, smaller v
                            cluster.insert(0, (u + t * (u >> 10), v - 3 * t * (v >> 10)))
                        else:
                            cluster.append((u - 3 * t * (u >> 10), v + t * (v >> 10)))
                sides += cluster
            pts = [(-u, -v) for u, v in sides]  # reference point (0, 0), minimisation
            if all(a[0] < b[0] and a[1] > b[1] for a, b in zip(pts, pts[1:])):
                yield pts


def w_ladder(task: tuple, part: Part) -> None:
    """_solve_hssp on every ladder front (this shard), every subset size, sorted and reversed input."""
    _, d, rm, kmax, shard, nshards, _flag = task
    r, m = rm
    _quiet()
    ref = (0, 0)
    for j, pts in enumerate(ladder_fronts(r, m)):
        if j % nshards != shard:
            continue
        part.add("ladder_fronts")
        for opts in (pts, pts[::-1]):
            def hv_of(pos: Sequence[int], opts: list = opts) -> int:
                area, best_y = 0, 0
                for x, y in sorted(opts[q] for q in pos):
                    if y < best_y:
                        area += (0 - x) * (best_y - y)
                        best_y = y
                return area

            for k in range(2, min(len(opts) - 1, kmax) + 1):
                check_hssp(part, 2, opts, ref, k, hv_of, True)
        if shard == 0 and len(pts) >= 9:
            part.sample({"fn": "_solve_hssp", "d": 2, "family": f"geometric ladder r={r} m={m} with boosted rungs and near-duplicate clusters",
                         "points": pts}, cap=1)


WORKERS = {"lat": w_lat, "pen": w_pen, "hssp": w_hssp, "hsspg": w_hsspg, "inf": w_inf, "ladder": w_ladder}


def worker(task: tuple) -> dict:
    part = Part()
    try:
        WORKERS[task[0]](task, part)
    except AbortTask:
        part.note(f"a call did not return within {HANG_S} s; the rest of its shard was skipped")
        part.add("shards_aborted_after_hang")
    return part.out()


# ------------------------------------------------------------------------------------------------
# plan
# ------------------------------------------------------------------------------------------------
EXT = (0.0, 1.0, INF, -INF)
EXT3 = (0.0, INF, -INF)


def plan(tier: str) -> tuple[list[tuple], dict]:
    q = tier == "quick"
    tasks: list[tuple] = []
    bounds: dict[str, list] = {"lat": [], "pen": [], "hssp": [], "hsspg": [], "inf": [], "ladder": []}

    def add(kind: str, d: int, m: Any, ns: Sequence[int], shards: Sequence[int], flag: bool = True) -> None:
        bounds[kind].append({"d": d, "alphabet": (f"{{0..{m}}}^{d}" if isinstance(m, int) else f"{list(m)}^{d}"),
                             ("n_up_to" if kind == "hssp" else "n"): list(ns), "all_input_orders": bool(flag)})
        for n, s in zip(ns, shards):
            for sh in range(s):
                tasks.append((kind, d, m, n, sh, s, flag))

    # hypervolume + ranks + fronts over all multisets
    add("lat", 1, 4, [1, 2, 3, 4], [1, 1, 1, 1])
    if q:
        add("lat", 2, 3, [1, 2, 3, 4], [1, 1, 1, 4])
        add("lat", 3, 2, [1, 2, 3], [1, 1, 8])
        add("lat", 4, 2, [1, 2], [1, 8])
        add("lat", 4, 1, [3], [4])
        add("lat", 5, 1, [1, 2, 3], [1, 2, 48], False)
    else:
        add("lat", 2, 3, [1, 2, 3, 4], [1, 1, 1, 4])
        add("lat", 2, 3, [5], [16])
        add("lat", 3, 3, [1, 2, 3], [1, 4, 32])
        add("lat", 3, 3, [4], [96], False)
        add("lat", 4, 2, [1, 2], [1, 4])
        add("lat", 4, 2, [3], [48], False)
        add("lat", 5, 1, [1, 2, 3], [1, 2, 16])
        add("lat", 5, 1, [4], [48], False)
    # constrained ranks
    if q:
        add("pen", 1, 2, [1, 2, 3], [1, 1, 1])
        add("pen", 2, 2, [1, 2, 3], [1, 1, 8])
        add("pen", 3, 1, [1, 2, 3], [1, 1, 6])
    else:
        add("pen", 1, 3, [1, 2, 3, 4], [1, 1, 1, 8])
        add("pen", 2, 3, [1, 2, 3], [1, 2, 24])
        add("pen", 2, 1, [4], [8])
        add("pen", 3, 2, [1, 2], [1, 4])
        add("pen", 3, 1, [3], [4])
        add("pen", 3, 1, [4], [24], False)
        add("pen", 4, 1, [1, 2], [1, 2])
        add("pen", 4, 1, [3], [12], False)
    # HSSP on antichains (the task's n is the maximum size)
    if q:
        add("hssp", 1, 4, [4], [1])
        add("hssp", 2, 3, [5], [4])
        add("hssp", 3, 2, [4], [12])
        add("hssp", 4, 1, [4], [6])
        add("hssp", 4, 2, [2], [4])
        add("hssp", 5, 1, [3], [48], False)
    else:
        add("hssp", 1, 4, [5], [1])
        add("hssp", 2, 3, [6], [8])
        add("hssp", 2, 4, [5], [8])
        add("hssp", 3, 2, [5], [48], False)
        add("hssp", 3, 3, [3], [32])
        add("hssp", 4, 1, [5], [16], False)
        add("hssp", 4, 2, [3], [48], False)
        add("hssp", 5, 1, [4], [32], False)
    # HSSP on multisets that contain dominated points (exactly n points)
    if q:
        add("hsspg", 2, 3, [2, 3, 4], [1, 2, 6])
        add("hsspg", 3, 2, [2, 3], [1, 8])
        add("hsspg", 4, 1, [3], [2])
    else:
        add("hsspg", 2, 3, [2, 3, 4, 5], [1, 2, 8, 32])
        add("hsspg", 3, 2, [2, 3, 4], [1, 8, 48])
        add("hsspg", 3, 3, [3], [32])
        add("hsspg", 3, 3, [4], [64], False)
        add("hsspg", 4, 1, [3, 4], [2, 8])
        add("hsspg", 4, 2, [3], [32], False)
        add("hsspg", 5, 1, [3], [16], False)
    # 2-d ladder fronts with near-duplicate clusters (scale separation; up to 10 points)
    for r in ((8,) if q else (4, 8, 16)):
        bounds["ladder"].append({"d": 2, "family": f"geometric ladder r={r}, 6 rungs, <=2 boosted, <=2 clustered", "subset_sizes": "2..7"})
        for sh in range(32):
            tasks.append(("ladder", 2, (r, 5), 7, sh, 32, True))
    # extended alphabet
    add("inf", 1, EXT, [1, 2, 3, 4], [1, 1, 1, 1])
    if q:
        add("inf", 2, EXT, [1, 2, 3], [1, 1, 4])
        add("inf", 3, EXT, [1, 2], [1, 8])
        add("inf", 4, EXT, [1], [2], False)
        add("inf", 5, EXT3, [1], [2], False)
    else:
        add("inf", 2, EXT, [1, 2, 3, 4], [1, 1, 4, 16])
        add("inf", 3, EXT, [1, 2], [1, 8])
        add("inf", 3, EXT, [3], [32], False)
        add("inf", 4, EXT, [1], [2])
        add("inf", 4, EXT, [2], [32], False)
        add("inf", 5, EXT, [1], [8], False)
        add("inf", 5, EXT3, [2], [32], False)
    return tasks, bounds


# ------------------------------------------------------------------------------------------------
# self-test of the oracles (harness faults are InternalError, never a VIOLATION)
# ------------------------------------------------------------------------------------------------
def selftest() -> None:
    hand = [
        ([(0, 0), (1, 1)], (2, 2), 4), ([(0, 1), (1, 0)], (2, 2), 3), ([(0, 1), (1, 0)], (1, 1), 0),
        ([(0, 0, 1), (0, 1, 0), (1, 0, 0)], (2, 2, 2), 7), ([(2,), (0,), (2,)], (3,), 3),
        ([(0, 2), (1, 1), (2, 0)], (3, 3), 6), ([(0, 0, 0, 0, 0)], (1, 2, 1, 2, 1), 4),
        ([(1, 1), (1, 1)], (1, 2), 0),
    ]
    for pts, ref, exp in hand:
        if hv_grid(pts, ref) != exp:
            raise InternalError(f"grid oracle wrong on {pts} {ref}: {hv_grid(pts, ref)} != {exp}")
    import random

    rng = random.Random(15)
    for d, m in [(1, 4), (2, 3), (3, 3), (4, 2), (5, 1)]:
        lat = get_lat(d, m)
        for _ in range(60):
            n = rng.randint(1, 4)
            idx = tuple(sorted(rng.randrange(lat.N) for _ in range(n)))
            pts = [lat.pts[i] for i in idx]
            ref = tuple(max(p[k] for p in pts) + rng.randint(0, 1) for k in range(d))
            if lat.hv(idx, ref) != hv_grid(pts, ref):
                raise InternalError(f"bit-set and grid hypervolume oracles disagree on {pts} {ref}")
            # inclusion-exclusion as a third opinion
            ie = 0
            for r in range(1, n + 1):
                for sub in itertools.combinations(range(n), r):
                    vol = 1
                    for k in range(d):
                        vol *= ref[k] - max(pts[j][k] for j in sub)
                    ie += vol if r % 2 else -vol
            if ie != hv_grid(pts, ref):
                raise InternalError(f"inclusion-exclusion and grid oracles disagree on {pts} {ref}")
    lat = get_lat(2, 3)
    i = lat.pts.index
    if peel([i((0, 0)), i((1, 1)), i((0, 1)), i((1, 0)), i((0, 0)), i((2, 2))], lat.domby) != [0, 2, 1, 1, 0, 3]:
        raise InternalError("peeling oracle wrong")
    if tier_ranks([i((1, 1)), i((0, 0)), i((0, 0)), i((2, 2)), i((0, 1))], lat.domby,
                  [0.0, NAN, 2.0, 1.0, -1.0]) != [1, 4, 3, 2, 0]:
        raise InternalError("three-tier oracle wrong")
    if rank_verdict([0, 1, 2, 2], [0, 1, 2, 2], 2) or rank_verdict([0, 1, 2, 2], [0, 1, 5, 9], 2) \
            or not rank_verdict([0, 1, 2, 2], [0, 1, 1, 2], 2) or not rank_verdict([0, 1, 2, 2], [0, 2, 2, 2], 2) \
            or rank_verdict([0, 0, 1], [0, 0, 7], 1) or not rank_verdict([0, 0, 1], [0, 1, 7], 1):
        raise InternalError("rank verdict wrong")
    if not ge_bound(2, 3) or ge_bound(1, 2) or not ge_bound(0, 0) or ge_bound(63, 100) or not ge_bound(64, 100) \
            or ge_bound(5, INF) or not ge_bound(INF, INF):
        raise InternalError("(1-1/e) bound decision wrong")
    if hv_ext([(-INF, 0.0)], (1.0, 1.0))[0] != "inf" or hv_ext([(-INF, 1.0)], (1.0, 1.0)) != ("indet", 0) \
            or hv_ext([(INF, 0.0)], (INF, 1.0))[0] != "indet" or hv_ext([(0.0, 0.0)], (INF, 1.0))[0] != "inf" \
            or hv_ext([(0.0, 1.0), (1.0, 0.0)], (2.0, 2.0)) != ("finite", 3) \
            or hv_ext([(-INF, 1.0), (0.0, 0.0)], (1.0, 1.0)) != ("indet", 1):
        raise InternalError("extended hypervolume classification wrong")
    if len(list(antichains(get_lat(2, 1), 2))) != 4 + 4 + 1:  # 4 singles, 4 doubles, {(0,1),(1,0)}
        raise InternalError("antichain generator wrong")


# ------------------------------------------------------------------------------------------------
# replay
# ------------------------------------------------------------------------------------------------
def _unjson(x: Any) -> Any:
    if isinstance(x, str) and x in ("inf", "-inf", "nan"):
        return float(x)
    if isinstance(x, list):
        return [_unjson(v) for v in x]
    return x


def replay_case(path: str) -> int:
    _quiet()
    rep = json.load(open(path))
    part = Part()
    pts = [tuple(float(v) for v in _unjson(p)) for p in rep["points"]]
    d = len(pts[0])
    al = Alpha(1, [0])  # container only
    al.pts = sorted(set(pts))
    al.domby = [sum(1 << j for j, q in enumerate(al.pts) if dominates(q, p)) for p in al.pts]
    idx = [al.pts.index(p) for p in pts]
    fn = rep["fn"]
    try:
        _replay_dispatch(part, fn, rep, pts, d, idx, al)
    except AbortTask:
        pass
    out = part.out()
    if out["viol"]:
        for key, r in out["viol"].items():
            print(f"VIOLATION property={PID} replay={path}  # {key}")
            print(json.dumps({k: v for k, v in r.items() if not k.startswith('_')}, indent=1))
        return 1
    print(f"[{PID}] replay {path}: no longer violated")
    return 0


def _replay_dispatch(part: Part, fn: str, rep: dict, pts: list, d: int, idx: list, al: Alpha) -> None:
    if fn == "compute_hypervolume":
        ref = tuple(float(v) for v in _unjson(rep["reference_point"]))
        kind, exp = hv_ext(pts, ref)
        check_hv_value(part, "wfg(assume_pareto)" if rep["assume_pareto"] else "wfg", d, pts, ref,
                       rep["assume_pareto"], kind, exp, False)
    elif fn == "_fast_non_domination_rank":
        pens = None if rep["penalty"] is None else [float(v) for v in _unjson(rep["penalty"])]
        true = peel(idx, al.domby) if pens is None else tier_ranks(idx, al.domby, pens)
        check_rank(part, d, pts, pens, rep["n_below"], true, False)
    elif fn == "_is_pareto_front":
        check_front(part, d, pts, rep["assume_unique_lexsorted"], [r == 0 for r in peel(idx, al.domby)], False)
    elif fn == "_solve_hssp":
        ref = tuple(float(v) for v in _unjson(rep["reference_point"]))
        dec = all(math.isfinite(r) for r in ref) and "indet" not in [box_class(p, ref) for p in pts]
        check_hssp(part, d, pts, ref, rep["subset_size"],
                   (lambda pos: hv_ext([pts[q] for q in pos], ref)[1]) if dec else None, False)
    else:
        raise InternalError(f"unknown replay fn {fn}")


# ------------------------------------------------------------------------------------------------
def run(tier: str, replay: str | None = None) -> int:
    _quiet()
    if replay is not None:
        return replay_case(replay)
    ctx = Ctx(PID, tier, "exploration")
    selftest()
    tasks, bounds = plan(tier)
    only = os.environ.get("VF_C15_ONLY")
    if only:
        tasks = [t for t in tasks if t[0] in only.split(",")]
    # biggest tasks first would be better for the pool, but pmap shuffles by seed: keep shards small
    pmap(ctx, worker, tasks)
    import optuna

    # Observation kept in the evidence (not a violation, the callers never do this): the docstring of
    # compute_hypervolume says a wrongly given assume_pareto=True does not change the result.
    compute_hypervolume = _optuna()[0]
    v = float(compute_hypervolume(np.array([[0.0, 0.0], [1.0, 1.0]]), np.array([2.0, 2.0]), True))
    if v != 4.0:
        ctx.notes.append("compute_hypervolume([[0,0],[1,1]], ref=[2,2], assume_pareto=True) = "
                         f"{v} (true 4.0): in 2 dimensions a wrongly given assume_pareto changes the result, "
                         "contrary to the docstring; assume_pareto=True is therefore only fed mutually "
                         "non-dominated inputs (what the callers pass)")
    if ctx.cov.get("hv_indeterminate_returned_inf"):
        ctx.notes.append("boxes with a zero width next to an infinite width (e.g. point (-inf,1), reference (1,1)) or a "
                         "width inf-inf: compute_hypervolume returns inf where the Lebesgue volume is finite (0 for "
                         "that example); accepted as optuna's convention ('nan is inf', tests/hypervolume_tests), "
                         "counted in hv_indeterminate_*")
    ctx.cov["optuna_file"] = os.path.dirname(optuna.__file__)
    ctx.cov["tasks"] = len(tasks)
    ctx.assumptions += [
        "nothing is claimed off the enumerated lattices (small integers and {0,1,+inf,-inf}); floating-point rounding "
        "cannot occur on them, so results are compared with exact equality",
        "reference points are {max, max+1}^d of the per-coordinate maxima (extended alphabet: also +inf, and 0 above "
        "-inf): always weakly dominated by every point, the precondition compute_hypervolume enforces with ValueError",
        "assume_pareto=True only on mutually non-dominated multisets (duplicates allowed, several input orders): what "
        "optuna's callers pass (TPE: lvals[on_front]; HSSP: selected vectors)",
        "_solve_hssp only on mutually non-dominated multisets (one non-domination rank, duplicates allowed, several "
        "input orders), rank_i_indices strictly increasing, 1 <= subset_size <= n: the TPE caller's precondition "
        "(it passes 1 <= subset_size < n)",
        "indeterminate volumes (0*inf, inf-inf) are not compared exactly: inf (optuna's documented convention) or the "
        "volume of the finite boxes is accepted; with a non-finite reference point or an indeterminate box HSSP is "
        "checked for size/membership/distinctness only",
        "penalty vectors over {nan,-1,0,1,2} (nan = no constraint information, as NSGA-II's _evaluate_penalty encodes "
        "it); n_below over {None,1..n}; NaN objective values are outside the documented domain and never fed",
        "HSSP is held to the property's (1-1/e) bound, not to being the exact greedy sequence",
    ]
    return ctx.finish(exhaustive=True, rule=RULE, extra={"bounds": bounds})


if __name__ == "__main__":
    main_wrapper(run)
