"""thx: real Python threads under a cooperative scheduler (DESIGN 2.2).

Scheduling points: sys.monitoring LINE events in the code objects of the optuna files under test,
CoopLock acquire/release, explicit sched.point() calls of the driver. Exactly one managed thread
runs at a time (baton = per-thread semaphore)."""
from __future__ import annotations

import sys
import threading
import types
from typing import Any, Callable

from .core import InternalError
from .explore import Chooser

TOOL_ID = 3
_mon = sys.monitoring
_ACTIVE: "Sched | None" = None
_instrumented: set = set()
_tool_ready = False

_LOCK_T = type(threading.Lock())
_RLOCK_T = type(threading.RLock())


def _line_cb(code: types.CodeType, line: int) -> Any:
    s = _ACTIVE
    if s is None:
        return None
    t = s.by_ident.get(threading.get_ident())
    if t is None or t.in_point:
        return None
    s.point("line", (code.co_name, line))
    return None


def _walk_code(code: types.CodeType, out: list) -> None:
    out.append(code)
    for c in code.co_consts:
        if isinstance(c, types.CodeType):
            _walk_code(c, out)


def instrument_module(mod: types.ModuleType) -> int:
    """Enable LINE events on every function/method/lambda defined in `mod`'s source file."""
    global _tool_ready
    if not _tool_ready:
        _mon.use_tool_id(TOOL_ID, "vf-thx")
        _mon.register_callback(TOOL_ID, _mon.events.LINE, _line_cb)
        _tool_ready = True
    fname = mod.__file__
    codes: list = []
    seen_ids = set()

    def visit_func(f: Any) -> None:
        f = getattr(f, "__wrapped__", f)
        c = getattr(f, "__code__", None)
        if c is not None and c.co_filename == fname and id(c) not in seen_ids:
            seen_ids.add(id(c))
            _walk_code(c, codes)

    for v in vars(mod).values():
        if isinstance(v, type) and v.__module__ == mod.__name__:
            for a in vars(v).values():
                if isinstance(a, (staticmethod, classmethod)):
                    a = a.__func__
                if isinstance(a, property):
                    for g in (a.fget, a.fset, a.fdel):
                        if g is not None:
                            visit_func(g)
                else:
                    visit_func(a)
        else:
            visit_func(v)
    _mod_codes[mod.__name__] = codes
    n = 0
    for c in codes:
        if c not in _instrumented:
            _mon.set_local_events(TOOL_ID, c, _mon.events.LINE)
            _instrumented.add(c)
            n += 1
    return n


_mod_codes: dict = {}


def set_instrumented(mods: list) -> None:
    """Make exactly the code objects of `mods` scheduling points (long-lived workers run
    scenarios for different files; coverage must not depend on what ran before)."""
    want: set = set()
    for m in mods:
        if m.__name__ not in _mod_codes:
            instrument_module(m)
        want.update(_mod_codes[m.__name__])
    for c in list(_instrumented):
        if c not in want:
            _mon.set_local_events(TOOL_ID, c, 0)
            _instrumented.discard(c)
    for c in want:
        if c not in _instrumented:
            _mon.set_local_events(TOOL_ID, c, _mon.events.LINE)
            _instrumented.add(c)


class DeadlockAbort(BaseException):
    pass


class _T:
    def __init__(self, idx: int) -> None:
        self.idx = idx
        self.sem = threading.Semaphore(0)
        self.done = False
        self.blocked_on: Any = None
        self.thread: threading.Thread | None = None
        self.obs: list = []
        self.error: str | None = None
        self.in_point = False


class Sched:
    def __init__(self, chooser: Chooser, max_steps: int = 20000) -> None:
        self.ch = chooser
        self.threads: list[_T] = []
        self.by_ident: dict[int, _T] = {}
        self.current: _T | None = None
        self.step = 0
        self.deadlock = False
        self.max_steps = max_steps
        self.main_sem = threading.Semaphore(0)
        self.trace: list = []  # (step, thread idx) context switches
        self.aborting = False

    def state_key(self, t: Any) -> Any:
        """None = no state caching (thx). procx overrides this."""
        return None

    # -- queries --------------------------------------------------------------------------------
    def me(self) -> _T | None:
        return self.by_ident.get(threading.get_ident())

    def now(self) -> int:
        return self.step

    def _enabled(self) -> list[_T]:
        return [t for t in self.threads if not t.done and t.blocked_on is None]

    # -- the scheduling point ---------------------------------------------------------------------
    def point(self, kind: str = "point", label: Any = None) -> None:
        t = self.me()
        if t is None or self.aborting:
            return
        if t.in_point:
            return
        t.in_point = True
        try:
            self.step += 1
            if self.step > self.max_steps:
                raise InternalError(f"thx execution exceeded {self.max_steps} steps (unbounded loop?)")
            self._switch(t)
        finally:
            t.in_point = False

    def _switch(self, t: _T) -> None:
        """Pick the next thread to run; t is the running thread (may have just blocked/finished)."""
        en = self._enabled()
        if not en:
            if all(x.done for x in self.threads):
                self.main_sem.release()
                return
            # deadlock: nobody can run
            self.deadlock = True
            self.aborting = True
            for x in self.threads:
                if not x.done and x is not t:
                    x.sem.release()
            if not t.done:
                raise DeadlockAbort()
            self.main_sem.release()
            return
        running_enabled = t in en
        if running_enabled:
            order = [t] + [x for x in en if x is not t]
        else:
            order = en
        c = self.ch.choose(len(order), costly=running_enabled, kind="thread",
                           state_key=self.state_key(t) if len(order) > 1 else None)
        nxt = order[c]
        if nxt is t:
            return
        self.trace.append((self.step, nxt.idx))
        self.current = nxt
        nxt.sem.release()
        if not t.done:
            t.sem.acquire()
            if self.aborting:
                raise DeadlockAbort()

    # -- blocking -----------------------------------------------------------------------------
    def block_on(self, res: Any) -> None:
        t = self.me()
        assert t is not None
        t.blocked_on = res
        t.in_point = True
        try:
            self.step += 1
            self._switch(t)
        finally:
            t.in_point = False

    def wake(self, res: Any) -> None:
        for x in self.threads:
            if x.blocked_on is res or (isinstance(res, (tuple, str)) and x.blocked_on == res):
                x.blocked_on = None

    # -- threads ------------------------------------------------------------------------------
    def _make_thread(self, t: _T, body: Callable[[], Any]) -> None:
        def runner() -> None:
            self.by_ident[threading.get_ident()] = t
            t.sem.acquire()
            try:
                if not self.aborting:
                    body()
            except DeadlockAbort:
                t.error = "deadlock"
            except InternalError as e:
                t.error = f"internal:{e}"
            except BaseException as e:  # the driver catches op exceptions itself
                t.error = f"driver:{type(e).__name__}:{e}"
            finally:
                t.done = True
                t.blocked_on = None
                self.wake(("join", t.idx))
                self.wake("any-thread-finished")
                if not self.aborting:
                    t.in_point = True
                    try:
                        self._switch(t)
                    except DeadlockAbort:
                        pass
                    finally:
                        t.in_point = False
                elif all(x.done for x in self.threads):
                    self.main_sem.release()

        t.thread = threading.Thread(target=runner, daemon=True)

    def spawn(self, body: Callable[[], Any]) -> _T:
        """Start a new managed thread from inside a managed thread (e.g. an executor's submit).
        The new thread becomes runnable; the spawner keeps the baton."""
        t = _T(len(self.threads))
        self.threads.append(t)
        self._make_thread(t, body)
        t.thread.start()
        import time as _time

        t0 = _time.time()
        while t.thread.ident not in self.by_ident:
            _time.sleep(0.0002)
            if _time.time() - t0 > 10:
                raise InternalError("spawned thread did not start")
        return t

    def join(self, t: _T) -> None:
        while not t.done:
            self.block_on(("join", t.idx))

    # -- running -----------------------------------------------------------------------------
    def run(self, bodies: list[Callable[[], Any]], timeout: float = 60.0) -> list[_T]:
        global _ACTIVE
        if _ACTIVE is not None:
            raise InternalError("nested thx run")
        for i, body in enumerate(bodies):
            t = _T(i)
            self.threads.append(t)
            self._make_thread(t, body)
        for t in self.threads:
            t.thread.start()
        _ACTIVE = self
        try:
            # wait until every runner has registered its ident
            import time as _time

            t0 = _time.time()
            while len(self.by_ident) < len(self.threads):
                _time.sleep(0.0002)
                if _time.time() - t0 > 10:
                    raise InternalError("threads did not start")
            c = self.ch.choose(len(self.threads), costly=False, kind="first")
            first = self.threads[c]
            self.current = first
            self.trace.append((0, first.idx))
            first.sem.release()
            if not self.main_sem.acquire(timeout=timeout):
                self.aborting = True
                for x in self.threads:
                    x.sem.release()
                raise InternalError("thx execution timed out (scheduler hang)")
        finally:
            _ACTIVE = None
        for t in self.threads:
            t.thread.join(timeout=5)
        for t in self.threads:
            if t.error and t.error.startswith("internal:"):
                raise InternalError(t.error)
        return self.threads


class CoopLock:
    """Drop-in for threading.Lock / RLock under Sched. Outside a run (or from an unmanaged
    thread) it behaves as an uncontended lock."""

    def __init__(self, reentrant: bool) -> None:
        self.reentrant = reentrant
        self.owner: Any = None
        self.count = 0

    def _who(self) -> Any:
        s = _ACTIVE
        if s is not None:
            t = s.me()
            if t is not None:
                return t
        return threading.get_ident()

    def acquire(self, blocking: bool = True, timeout: float = -1) -> bool:
        s = _ACTIVE
        me = self._who()
        managed = s is not None and isinstance(me, _T)
        if managed:
            s.point("lock-acquire")
        while self.owner is not None and not (self.reentrant and self.owner is me):
            if not managed:
                raise InternalError("CoopLock contended outside a scheduled run")
            if not blocking:
                return False
            s.block_on(self)
        self.owner = me
        self.count += 1
        return True

    def release(self) -> None:
        if self.owner is None:
            raise RuntimeError("release unlocked lock")
        self.count -= 1
        if self.count == 0:
            self.owner = None
            s = _ACTIVE
            if s is not None:
                s.wake(self)
                if s.me() is not None:
                    s.point("lock-release")

    def locked(self) -> bool:
        return self.owner is not None

    def __enter__(self) -> "CoopLock":
        self.acquire()
        return self

    def __exit__(self, *a: Any) -> None:
        self.release()


def replace_locks(root: Any, max_depth: int = 6) -> int:
    """Replace every threading.Lock / RLock reachable from `root` through instance attributes and
    containers by a CoopLock (discovery by type, not by attribute name)."""
    n = 0
    seen: set[int] = set()

    def walk(x: Any, depth: int) -> None:
        nonlocal n
        if depth > max_depth or id(x) in seen:
            return
        seen.add(id(x))
        if isinstance(x, dict):
            for k, v in list(x.items()):
                if isinstance(v, (_LOCK_T, _RLOCK_T)):
                    x[k] = CoopLock(isinstance(v, _RLOCK_T))
                    n += 1
                else:
                    walk(v, depth + 1)
            return
        if isinstance(x, (list, tuple, set)):
            for v in x:
                walk(v, depth + 1)
            return
        d = getattr(x, "__dict__", None)
        if d is None or isinstance(x, (type, types.ModuleType, types.FunctionType)):
            return
        mod = type(x).__module__ or ""
        if not (mod.startswith("optuna") or mod.startswith("vf")):
            return
        for k, v in list(d.items()):
            if isinstance(v, (_LOCK_T, _RLOCK_T)):
                setattr(x, k, CoopLock(isinstance(v, _RLOCK_T)))
                n += 1
            else:
                walk(v, depth + 1)

    walk(root, 0)
    return n


# ---------------------------------------------------------------------------------------------
# scheduler-controlled stand-ins for concurrent.futures (Study.optimize(n_jobs=k))
# ---------------------------------------------------------------------------------------------
class SchedFuture:
    def __init__(self) -> None:
        self.t: Any = None
        self._exc: BaseException | None = None
        self._res: Any = None
        self._done = False

    def done(self) -> bool:
        return self._done

    def result(self, timeout: Any = None) -> Any:
        s = _ACTIVE
        if s is not None and not self._done:
            s.join(self.t)
        if self._exc is not None:
            raise self._exc
        return self._res


class SchedExecutor:
    """ThreadPoolExecutor whose workers are managed threads of the active Sched (one thread per
    submitted call; max_workers is honoured by the caller's own `wait` logic)."""

    def __init__(self, max_workers: Any = None, *a: Any, **k: Any) -> None:
        self.futures: list[SchedFuture] = []

    def __enter__(self) -> "SchedExecutor":
        return self

    def __exit__(self, *a: Any) -> None:
        self.shutdown()

    def shutdown(self, wait: bool = True, **k: Any) -> None:
        s = _ACTIVE
        if s is None:
            return
        for f in self.futures:
            if not f._done:
                s.join(f.t)

    def submit(self, fn: Callable, *args: Any, **kwargs: Any) -> SchedFuture:
        s = _ACTIVE
        if s is None:
            raise InternalError("SchedExecutor used outside a scheduled run")
        f = SchedFuture()

        def body() -> None:
            try:
                f._res = fn(*args, **kwargs)
            except DeadlockAbort:
                raise
            except BaseException as e:
                f._exc = e
            finally:
                f._done = True

        f.t = s.spawn(body)
        self.futures.append(f)
        s.point("submit")
        return f


def sched_wait(futures: Any, timeout: Any = None, return_when: Any = None) -> tuple:
    s = _ACTIVE
    futures = set(futures)
    while s is not None and futures and not any(f.done() for f in futures):
        s.block_on("any-thread-finished")
    done = {f for f in futures if f.done()}
    return done, futures - done


_copy_points_on = True


def install_copy_points(enabled: bool = True) -> None:
    """A real interpreter may switch threads anywhere inside copy.deepcopy (pure Python code). The
    copy module itself is not instrumented (thousands of lines per call); instead the deep copy of
    every FrozenTrial is a scheduling point: that is the granularity at which a half-taken snapshot
    of a trial list differs observably. Threads that are not scheduled pass straight through."""
    import copy as _copy

    from optuna.trial import FrozenTrial

    global _copy_points_on
    _copy_points_on = enabled
    if getattr(FrozenTrial, "_vf_copy_point", False):
        return

    def __deepcopy__(self: Any, memo: dict) -> Any:
        s = _ACTIVE
        if s is not None and _copy_points_on:
            s.point("deepcopy")
        cls = self.__class__
        new = cls.__new__(cls)
        memo[id(self)] = new
        for k, v in self.__dict__.items():
            new.__dict__[k] = _copy.deepcopy(v, memo)
        return new

    FrozenTrial.__deepcopy__ = __deepcopy__  # type: ignore[attr-defined]
    FrozenTrial._vf_copy_point = True  # type: ignore[attr-defined]
