"""C13 - maximising f behaves exactly like minimising -f.

Bounded-exhaustive differential check (nothing is sampled: the full finite product below is run).
For every sampler x pruner x seed x deterministic define-by-run objective program x base direction
vector x subset S of objectives to flip:

  run A: directions = base,                 objective returns  f_j, reports  v_s
  run B: directions = base with S flipped,  objective returns -f_j for j in S (and reports -v_s when
         objective 0 is flipped), pruner value thresholds mirrored, same seed, same study name.

Oracle: same number of trials, per trial number the same params, the same state, the same set of
reported steps (= same pruning step), values / intermediate values exactly mirrored, and the same
best trial (single objective) / the same set of Pareto-optimal trial numbers (multi objective).
S = {} is a control pair (run A twice): a difference there means the harness lost determinism.

All objective and intermediate values are small dyadic rationals g/64 + trial.number/4096 (g an
integer built from the suggested parameters), pairwise distinct within a study, so negation, sums,
means and percentiles are exact in binary floating point and value ties cannot excuse a difference.
This is verified on every run A (counter programs_rejected_for_ties, must be 0).

Mutations of optuna this check must catch.  All were applied one at a time to a scratch copy
(VF_REPO) and DETECTED by the quick tier (M10: thorough tier, GPSampler tasks); behind each the new
violation keys (beyond those of the unmodified tree):
  M1  pruners/_percentile.py: drop `percentile = 100 - percentile` for MAXIMIZE
        -> <every sampler>|PercentilePruner|state-differs (+ pruning-step-differs); MedianPruner is
           rightly unaffected (50 is its own mirror)
  M2  pruners/_successive_halving.py: `value >= competing[...]` -> `value >` for MAXIMIZE only
        -> <every sampler>|SuccessiveHalvingPruner|state-differs, <every sampler>|HyperbandPruner|state-differs
  M3  samplers/_tpe/sampler.py: _get_pruned_trial_score forgets the sign flip for MAXIMIZE
        -> TPESampler(gamma=n/2)|<Median,Percentile,SHA,Hyperband,Threshold,Wilcoxon>Pruner|params-differ,
           TPESampler|ThresholdPruner|params-differ, TPESampler(mv,group,liar)|ThresholdPruner|params-differ
           (with the default gamma only one trial is "below" for n <= 10, hence the gamma=n/2 variant)
  M4  pruners/_patient.py: nanmax -> nanmin (scores before patience) in the MAXIMIZE branch
        -> <every sampler>|PatientPruner|state-differs
  M5  samplers/nsgaii/_elite_population_selection_strategy.py: _rank_population ignores the
      direction of the second objective
        -> NSGAIISampler|NopPruner|3-objective|flip{1}|params-differ, ...|flip{0,1}|params-differ
  M6  samplers/_tpe/sampler.py: _split_complete_trials_single_objective sorts ascending for both
      directions -> TPESampler*|<every pruner>|params-differ
  M7  pruners/_wilcoxon.py: alternative hypothesis not flipped for MAXIMIZE
        -> <every sampler>|WilcoxonPruner|state-differs
  M8  samplers/_tpe/sampler.py: _split_complete_trials_multi_objective without the sign vector
        -> TPESampler*|NopPruner|{2,3}-objective|flip{*}|params-differ (all 30 keys)
  M9  samplers/_tpe/sampler.py: _calculate_weights_below_for_multi_objective without the sign vector
        -> TPESampler(gamma=n/2)|NopPruner|{2,3}-objective|flip{*}|params-differ
  M10 samplers/_gp/sampler.py: `_sign = -1.0` for both directions -> GPSampler|<pruner>|params-differ
  M11 study/_multi_objective.py: _normalize_value does not negate for MAXIMIZE
        -> <every sampler>|NopPruner|k-objective|flip{*}|best-trial-differs, NSGA*|*|params-differ
  M12 storages/_in_memory.py: best-trial cache compares the wrong way for MAXIMIZE
        -> <every sampler>|<every pruner>|best-trial-differs, *|WilcoxonPruner|state-differs

Findings on the unmodified tree (kept reported, root causes confirmed by monkeypatching):
  * NSGAIISampler, multi-objective, whenever the LAST objective is flipped: _crowding_distance_sort
    breaks ties between equal crowding distances (the boundary individuals, all inf) by the order
    left behind by _calc_crowding_distance, i.e. ascending RAW value of the last objective, not its
    direction-normalised value; the elite population comes out in a different order / with another
    boundary individual and the parents drawn from it differ (first at trial 3 or 4).
  * NSGAIIISampler, multi-objective, any flipped subset: _filter_inf/_normalize_objective_values
    work on the raw values ("ideal point = minimum in each axis") and never look at study.directions,
    so the niche preservation of a maximised objective is done on the un-negated axis.
  Incidental (symmetric, not a C13 violation, counted in runs_raising): NSGAII/NSGAIII/GPSampler +
  HyperbandPruner on a conditional search space raise KeyError/IndexError inside sample_relative.
"""
from __future__ import annotations

import itertools
import json
import math
import os
from typing import Any, Callable

import optuna
from optuna.trial import TrialState

from . import backends
from .core import Ctx, InternalError, Part, main_wrapper, pmap

PID = "C13"
TN_DIV = 4096.0  # trial.number / 4096: distinct for < 64 trials, below the 1/64 parameter lattice
STUDY_NAME = "c13"  # HyperbandPruner hashes the study name into the bracket id: keep it fixed


class PlannedFailure(ValueError):
    """The deterministically failing trial (a ValueError; only this subclass is caught so that a
    ValueError raised inside optuna is not silently turned into a FAIL trial)."""


# =================================================================================================
# objective programs.  fn(trial, sg) with sg[j] in {+1.0, -1.0}; returns sg[j] * f_j
# =================================================================================================
class Prog:
    def __init__(self, name: str, n_obj: int, fn: Callable, grid: dict | None, reports: bool):
        self.name, self.n_obj, self.fn, self.grid, self.reports = name, n_obj, fn, grid, reports


def _steps8(lo: float, n: int, step: float) -> list[float]:
    return [lo + k * step for k in range(n)]


def _report_loop(trial: Any, sg0: float, ivs: list[float]) -> float:
    for s, v in enumerate(ivs):
        trial.report(sg0 * v, s)
        if trial.should_prune():
            raise optuna.TrialPruned()
    return sg0 * ivs[-1]


def p_s_float_step(trial: Any, sg: tuple) -> float:
    x = trial.suggest_float("x", 0.0, 1.0, step=0.125)
    y = trial.suggest_float("y", -1.0, 1.0, step=0.25)
    g = abs(x - 0.375) + abs(y + 0.25) / 16
    return sg[0] * (g + trial.number / TN_DIV)


def p_s_int_cat(trial: Any, sg: tuple) -> float:
    i = trial.suggest_int("i", 0, 7)
    c = trial.suggest_categorical("c", ("a", "b", "c"))
    l = trial.suggest_int("l", 1, 16, log=True)
    g = abs(i - 5) / 8 + {"a": 2, "b": 0, "c": 1}[c] / 32 + (l % 3) / 64
    return sg[0] * (g + trial.number / TN_DIV)


def p_s_cond(trial: Any, sg: tuple) -> float:
    kind = trial.suggest_categorical("kind", ("lin", "quad"))
    if kind == "lin":
        a = trial.suggest_int("a", 0, 7)
        g = abs(a - 2) / 8 + 1 / 64
    else:
        b = trial.suggest_float("b", -1.0, 1.0, step=0.25)
        g = b * b / 2
    return sg[0] * (g + trial.number / TN_DIV)


def p_s_cont(trial: Any, sg: tuple) -> float:
    x = trial.suggest_float("x", 0.0, 1.0)
    z = trial.suggest_float("z", 0.01, 1.0, log=True)
    q, r = min(math.floor(x * 16), 15), min(math.floor(z * 8), 7)
    g = abs(q - 5) / 16 + abs(r - 2) / 64
    return sg[0] * (g + trial.number / TN_DIV)


def p_s_fail(trial: Any, sg: tuple) -> float:
    x = trial.suggest_float("x", 0.0, 1.0, step=0.125)
    k = trial.suggest_int("k", 0, 3)
    if trial.number == 2:
        raise PlannedFailure("planned")
    g = abs(x - 0.625) + k / 32
    return sg[0] * (g + trial.number / TN_DIV)


SHAPES = {"up": (0, 1, 2, 3), "down": (0, -1, -2, -3), "vee": (2, 0, 1, 3), "cap": (1, 3, 2, 0)}


def p_r_curve(trial: Any, sg: tuple) -> float:
    x = trial.suggest_int("x", 0, 7)
    sh = trial.suggest_categorical("shape", tuple(SHAPES))
    base = abs(x - 3) / 8 + trial.number / TN_DIV
    return _report_loop(trial, sg[0], [base + SHAPES[sh][s] / 64 for s in range(4)])


def p_r_nan(trial: Any, sg: tuple) -> float:
    """Like r_curve over six steps, but one report per trial is NaN (-NaN is NaN: the mirrored
    run reports NaN at the same step); the step moves with the trial number."""
    x = trial.suggest_int("x", 0, 7)
    sh = trial.suggest_categorical("shape", tuple(SHAPES))
    base = abs(x - 3) / 8 + trial.number / TN_DIV
    ivs = [base + SHAPES[sh][s % 4] / 64 + (s // 4) / 256 for s in range(6)]
    k = trial.number % 7  # every seventh trial reports no NaN at all
    for s, v in enumerate(ivs):
        trial.report(float("nan") if s == k else sg[0] * v, s)
        if trial.should_prune():
            raise optuna.TrialPruned()
    return sg[0] * ivs[-1]


def p_r_cond_fail(trial: Any, sg: tuple) -> float:
    arch = trial.suggest_categorical("arch", ("short", "long"))
    lr = trial.suggest_float("lr", 0.0, 1.0, step=0.125)
    if trial.number == 2:
        raise PlannedFailure("planned")
    if arch == "short":
        base = abs(lr - 0.25) + trial.number / TN_DIV
        ivs = [base + (s + 1) / 64 for s in range(2)]
    else:
        d = trial.suggest_int("d", 1, 4)
        base = abs(lr - 0.5) + trial.number / TN_DIV
        ivs = [base + (d * (3 - s) if d % 2 else d * s) / 64 for s in range(4)]
    return _report_loop(trial, sg[0], ivs)


def p_r_float(trial: Any, sg: tuple) -> float:
    x = trial.suggest_float("x", 0.0, 1.0)
    w = trial.suggest_float("w", 0.0, 1.0)
    q, r = min(math.floor(x * 8), 7), min(math.floor(w * 4), 3)
    base = abs(q - 4) / 8 + trial.number / TN_DIV
    off = [(r - 2) * s for s in range(4)] if r != 2 else list(SHAPES["vee"])
    return _report_loop(trial, sg[0], [base + o / 64 for o in off])


def p_m2(trial: Any, sg: tuple) -> tuple:
    x = trial.suggest_float("x", 0.0, 1.0, step=0.125)
    y = trial.suggest_int("y", 0, 7)
    tn = trial.number
    f0 = abs(x - 0.25) + y / 64 + tn / TN_DIV
    f1 = abs(x - 0.75) + (7 - y) / 64 + (63 - tn) / TN_DIV
    return sg[0] * f0, sg[1] * f1


def p_m2_cond_fail(trial: Any, sg: tuple) -> tuple:
    kind = trial.suggest_categorical("kind", ("p", "q"))
    tn = trial.number
    if kind == "p":
        a = trial.suggest_int("a", 0, 7)
        f0, f1 = a / 8, (7 - a) / 8 + 1 / 64
    else:
        b = trial.suggest_float("b", 0.0, 1.0, step=0.125)
        c = trial.suggest_categorical("c", (0, 1, 2))
        f0, f1 = b * b + c / 64, (1 - b) + (2 - c) / 32
    if tn == 2:
        raise PlannedFailure("planned")
    return sg[0] * (f0 + tn / TN_DIV), sg[1] * (f1 + (63 - tn) / TN_DIV)


def p_m3(trial: Any, sg: tuple) -> tuple:
    i = trial.suggest_int("i", 0, 7)
    j = trial.suggest_int("j", 0, 7)
    c = ("u", "v").index(trial.suggest_categorical("c", ("u", "v")))
    tn = trial.number
    f0 = i / 8 + tn / TN_DIV
    f1 = j / 8 + c / 64 + (63 - tn) / TN_DIV
    f2 = abs(i - j) / 8 + (1 - c) / 32 + ((tn * 5) % 64) / TN_DIV
    return sg[0] * f0, sg[1] * f1, sg[2] * f2


def p_m3_cont(trial: Any, sg: tuple) -> tuple:
    x = trial.suggest_float("x", 0.0, 1.0)
    y = trial.suggest_float("y", 0.0, 1.0)
    qx, qy = min(math.floor(x * 8), 7), min(math.floor(y * 8), 7)
    tn = trial.number
    f0 = qx / 8 + tn / TN_DIV
    f1 = qy / 8 + (63 - tn) / TN_DIV
    f2 = (16 - qx - qy) / 16 + ((tn * 3) % 64) / TN_DIV
    return sg[0] * f0, sg[1] * f1, sg[2] * f2


PROGS: dict[str, Prog] = {p.name: p for p in [
    Prog("s_float_step", 1, p_s_float_step, {"x": _steps8(0.0, 9, 0.125), "y": _steps8(-1.0, 9, 0.25)}, False),
    Prog("s_int_cat", 1, p_s_int_cat, {"i": list(range(8)), "c": ["a", "b", "c"], "l": list(range(1, 17))}, False),
    Prog("s_cond", 1, p_s_cond, {"kind": ["lin", "quad"], "a": list(range(8)), "b": _steps8(-1.0, 9, 0.25)}, False),
    Prog("s_cont", 1, p_s_cont, None, False),
    Prog("s_fail", 1, p_s_fail, {"x": _steps8(0.0, 9, 0.125), "k": list(range(4))}, False),
    Prog("r_curve", 1, p_r_curve, {"x": list(range(8)), "shape": list(SHAPES)}, True),
    Prog("r_cond_fail", 1, p_r_cond_fail, {"arch": ["short", "long"], "lr": _steps8(0.0, 9, 0.125), "d": [1, 2, 3, 4]}, True),
    Prog("r_float", 1, p_r_float, None, True),
    Prog("r_nan", 1, p_r_nan, {"x": list(range(8)), "shape": list(SHAPES)}, True),
    Prog("m2", 2, p_m2, {"x": _steps8(0.0, 9, 0.125), "y": list(range(8))}, False),
    Prog("m2_cond_fail", 2, p_m2_cond_fail, {"kind": ["p", "q"], "a": list(range(8)), "b": _steps8(0.0, 9, 0.125), "c": [0, 1, 2]}, False),
    Prog("m3", 3, p_m3, {"i": list(range(8)), "j": list(range(8)), "c": ["u", "v"]}, False),
    Prog("m3_cont", 3, p_m3_cont, None, False),
]}

# =================================================================================================
# samplers / pruners (fresh objects with identical constructor arguments for every run)
# =================================================================================================
SAMPLERS = ["RandomSampler", "TPESampler", "TPESampler(mv,group,liar)", "TPESampler(gamma=n/2)", "NSGAIISampler", "NSGAIIISampler",
            "QMCSampler", "BruteForceSampler", "GridSampler"]
GP = "GPSampler"
PRUNERS = ["NopPruner", "MedianPruner", "PercentilePruner", "SuccessiveHalvingPruner", "HyperbandPruner",
           "PatientPruner", "PatientPruner(bare)", "ThresholdPruner", "WilcoxonPruner"]
TH_LOWER = 5 / 64 + 3 / TN_DIV
TH_UPPER = 23 / 64 + 5 / TN_DIV


def _gamma_half(n: int) -> int:
    return min((n + 1) // 2, 25)


def make_sampler(name: str, seed: int, prog: Prog) -> Any:
    S = optuna.samplers
    if name == "RandomSampler":
        return S.RandomSampler(seed=seed)
    if name == "TPESampler":
        return S.TPESampler(n_startup_trials=3, seed=seed)
    if name == "TPESampler(mv,group,liar)":
        return S.TPESampler(n_startup_trials=3, multivariate=True, group=True, constant_liar=True, seed=seed)
    if name == "TPESampler(gamma=n/2)":
        # default gamma puts ONE trial below for n <= 10: pruned trials and the multi-objective weights never matter
        return S.TPESampler(n_startup_trials=3, gamma=_gamma_half, seed=seed)
    if name == "NSGAIISampler":
        return S.NSGAIISampler(population_size=3, seed=seed)
    if name == "NSGAIIISampler":
        return S.NSGAIIISampler(population_size=3, seed=seed)
    if name == "QMCSampler":
        return S.QMCSampler(seed=seed, scramble=True)
    if name == "BruteForceSampler":
        return S.BruteForceSampler(seed=seed)
    if name == "GridSampler":
        return S.GridSampler(prog.grid, seed=seed)
    if name == GP:
        return S.GPSampler(seed=seed, n_startup_trials=3)
    raise InternalError(f"unknown sampler {name}")


def make_pruner(name: str, mirror: bool) -> Any:
    P = optuna.pruners
    if name == "NopPruner":
        return P.NopPruner()
    if name == "MedianPruner":
        return P.MedianPruner(n_startup_trials=2, n_warmup_steps=0)
    if name == "PercentilePruner":
        return P.PercentilePruner(25.0, n_startup_trials=2)
    if name == "SuccessiveHalvingPruner":
        return P.SuccessiveHalvingPruner()
    if name == "HyperbandPruner":
        return P.HyperbandPruner(min_resource=1, max_resource=4)
    if name == "PatientPruner":
        return P.PatientPruner(P.MedianPruner(n_startup_trials=2), patience=1)
    if name == "PatientPruner(bare)":
        return P.PatientPruner(None, patience=1)  # prunes whenever the patience is exhausted
    if name == "ThresholdPruner":
        if mirror:
            return P.ThresholdPruner(lower=-TH_UPPER, upper=-TH_LOWER)
        return P.ThresholdPruner(lower=TH_LOWER, upper=TH_UPPER)
    if name == "WilcoxonPruner":
        return P.WilcoxonPruner(p_threshold=0.3, n_startup_steps=1)
    raise InternalError(f"unknown pruner {name}")


def applicable(sname: str, prog: Prog) -> bool:
    if sname in ("BruteForceSampler", "GridSampler") and prog.grid is None:
        return False  # continuous parameters: no finite grid
    if sname == GP and prog.n_obj > 1:
        return False  # GPSampler of this version is single-objective only
    return True


# =================================================================================================
# one run -> trace
# =================================================================================================
def run_study(sname: str, pname: str, seed: int, prog: Prog, dirs: tuple, sg: tuple, n_trials: int) -> dict:
    mirror = sg[0] < 0  # pruners only exist in single-objective studies
    study = optuna.create_study(
        storage=optuna.storages.InMemoryStorage(), study_name=STUDY_NAME, directions=list(dirs),
        sampler=make_sampler(sname, seed, prog), pruner=make_pruner(pname, mirror))
    err = None
    try:
        study.optimize(lambda t: prog.fn(t, sg), n_trials=n_trials, catch=(PlannedFailure,))
    except Exception as e:  # compared between the runs, and counted (runs_raising)
        err = f"{type(e).__name__}: {e}"[:200]
    trials = []
    for t in study.get_trials(deepcopy=False):
        trials.append({
            "number": t.number, "state": t.state.name, "params": dict(t.params),
            "values": list(t.values) if t.values is not None else None,
            "iv": sorted(t.intermediate_values.items()),
        })
    try:
        if prog.n_obj == 1:
            best: Any = study.best_trial.number
        else:
            best = sorted(t.number for t in study.best_trials)
    except ValueError:
        best = None
    return {"trials": trials, "best": best, "error": err}


def _dyadic(v: float) -> bool:
    return math.isfinite(v) and abs(v) < 64 and float(v * TN_DIV * 16).is_integer()


def values_ok(tr: dict, n_obj: int) -> str | None:
    """Pairwise distinctness / dyadicity of everything the samplers and pruners can see in run A."""
    for j in range(n_obj):
        vs = [t["values"][j] for t in tr["trials"] if t["state"] == "COMPLETE"]
        if len(set(vs)) != len(vs):
            return f"objective {j}: tied final values"
        if not all(_dyadic(v) for v in vs):
            return f"objective {j}: non-dyadic value"
    ivs = [v for t in tr["trials"] for _, v in t["iv"] if v == v]  # NaN reports mirror to NaN: not a value
    if len(set(ivs)) != len(ivs):
        return "tied intermediate values"
    if not all(_dyadic(v) for v in ivs):
        return "non-dyadic intermediate value"
    return None


def compare(a: dict, b: dict, sg: tuple) -> tuple[str, Any, Any] | None:
    """First difference between run A and the (mirrored) run B: (clause, trial number, detail)."""
    n = min(len(a["trials"]), len(b["trials"]))
    for i in range(n):
        ta, tb = a["trials"][i], b["trials"][i]
        if ta["params"] != tb["params"]:
            return "params-differ", i, (ta, tb)
        if ta["state"] != tb["state"]:
            return "state-differs", i, (ta, tb)
        if [s for s, _ in ta["iv"]] != [s for s, _ in tb["iv"]]:
            return "pruning-step-differs", i, (ta, tb)
        if any(vb != sg[0] * va and not (va != va and vb != vb) for (_, va), (_, vb) in zip(ta["iv"], tb["iv"])):
            return "intermediate-values-not-mirrored", i, (ta, tb)
        if (ta["values"] is None) != (tb["values"] is None) or (
                ta["values"] is not None and [s * v for s, v in zip(sg, ta["values"])] != tb["values"]):
            return "values-not-mirrored", i, (ta, tb)
    if len(a["trials"]) != len(b["trials"]):
        return "number-of-trials-differs", n, (len(a["trials"]), len(b["trials"]))
    if a["error"] != b["error"]:
        return "raised-error-differs", None, (a["error"], b["error"])
    if a["best"] != b["best"]:
        return "best-trial-differs", None, (a["best"], b["best"])
    return None


def flip(dirs: tuple, subset: tuple) -> tuple:
    return tuple(("minimize" if d == "maximize" else "maximize") if j in subset else d for j, d in enumerate(dirs))


def check_config(part: Part, sname: str, pname: str, seed: int, prog: Prog, base: tuple, n_trials: int,
                 control: bool) -> None:
    n = prog.n_obj
    a = run_study(sname, pname, seed, prog, base, (1.0,) * n, n_trials)
    part.add("transitions", len(a["trials"]))
    if a["error"]:
        part.add("runs_raising")
        part.note(f"run raised: {sname} {pname} {prog.name}: {a['error']}")
    bad = values_ok(a, n)
    if bad:
        part.add("programs_rejected_for_ties")
        part.note(f"program {prog.name} rejected ({bad}) with {sname}/{pname}/seed {seed}")
        return
    n_pruned = sum(1 for t in a["trials"] if t["state"] == "PRUNED")
    subsets = [s for k in range(n + 1) for s in itertools.combinations(range(n), k)]
    for subset in subsets:
        if not subset and not control:
            continue
        sg = tuple(-1.0 if j in subset else 1.0 for j in range(n))
        b = run_study(sname, pname, seed, prog, flip(base, subset), sg, n_trials)
        part.add("transitions", len(b["trials"]))
        diff = compare(a, b, sg)
        cfg = {"sampler": sname, "pruner": pname, "seed": seed, "program": prog.name, "n_trials": n_trials,
               "directions_A": list(base), "flipped_objectives": list(subset),
               "directions_B": list(flip(base, subset))}
        if not subset:
            part.add("control_pairs")
            if diff is not None:
                raise InternalError(f"control pair (identical runs) differs: {cfg} {diff[0]} at trial {diff[1]}")
            continue
        part.add("evaluations")
        part.add("states")
        part.add("traces_validated_against_impl")
        part.add(f"pairs[{pname}]")
        if n_pruned:
            part.add("pairs_with_pruning")
            part.add(f"pairs_with_pruning[{pname}]")
            part.add(f"pruned_trials[{pname}]", n_pruned)
        if any(t["state"] == "FAIL" for t in a["trials"]):
            part.add("pairs_with_failed_trial")
        if diff is not None:
            clause, at, detail = diff
            rep = dict(cfg, clause=clause, first_differing_trial=at)
            if isinstance(at, int) and isinstance(detail[0], dict):
                # trial k only depends on trials < k: the shortest study showing the divergence has at + 1 trials
                rep["n_trials"], rep["n_trials_run"] = at + 1, n_trials
                rep["run_A_trial"], rep["run_B_trial"] = detail
                rep["common_history_A"] = [(t["number"], t["state"], t["values"]) for t in a["trials"][:at]]
            else:
                rep["run_A"], rep["run_B"] = detail
            # multi-objective keys carry the flipped subset: which objectives' directions matter is the diagnosis
            where = f"{n}-objective|flip{{{','.join(map(str, subset))}}}|" if n > 1 else ""
            part.violation(f"{sname}|{pname}|{where}{clause}", rep)
    part.sample({"sampler": sname, "pruner": pname, "seed": seed, "program": prog.name, "directions": base,
                 "states_A": "".join(t["state"][0] for t in a["trials"]), "best": a["best"]}, cap=1)


# =================================================================================================
# tasks
# =================================================================================================
def programs_for(pname: str, group: str) -> list[Prog]:
    if group.startswith("multi:"):  # one task per multi-objective program (the slow ones: 2^n x 2^n runs)
        return [PROGS[group[6:]]]
    ps = [p for p in PROGS.values() if p.n_obj == 1]
    return ps if pname == "NopPruner" else [p for p in ps if p.reports]


def bases_for(group: str) -> list[tuple]:
    if group == "single-max":
        return [("maximize",)]
    if group == "single-min":
        return [("minimize",)]
    return list(itertools.product(("minimize", "maximize"), repeat=PROGS[group[6:]].n_obj))


def task_fn(task: tuple) -> dict:
    sname, pname, seed, group, n_trials, control = task
    backends.setup_determinism()
    if sname == GP:
        import torch

        torch.set_num_threads(1)
    part = Part()
    for prog in programs_for(pname, group):
        if not applicable(sname, prog):
            part.add("combinations_not_applicable")
            continue
        for base in bases_for(group):
            check_config(part, sname, pname, seed, prog, base, n_trials, control)
    return part.out()


def gp_available() -> str | None:
    try:
        import torch  # noqa: F401
        import scipy  # noqa: F401

        optuna.samplers.GPSampler(seed=0)
        return None
    except Exception as e:
        return f"{type(e).__name__}: {e}"


def plan(tier: str, notes: list[str]) -> list[tuple]:
    tasks = []
    seeds = (0, 1) if tier == "quick" else (0, 1, 2, 3)
    lengths = (10,) if tier == "quick" else (10, 24)
    for n_trials in lengths:
        for sname in SAMPLERS:
            for seed in seeds:
                for pname in PRUNERS:
                    for group in ("single-max", "single-min"):
                        tasks.append((sname, pname, seed, group, n_trials, True))
                for prog in PROGS.values():
                    if prog.n_obj > 1:
                        tasks.append((sname, "NopPruner", seed, "multi:" + prog.name, n_trials, True))
    if tier == "thorough":
        why = gp_available()
        if why is None:
            for seed in (0, 1):
                for pname in PRUNERS:
                    for group in ("single-max", "single-min"):
                        tasks.append((GP, pname, seed, group, 6, False))
        else:
            notes.append(f"GPSampler skipped: {why}")
    else:
        notes.append("GPSampler is only run in the thorough tier")
    return tasks


def run(tier: str, replay: str | None = None) -> int:
    backends.setup_determinism()
    if replay is not None:
        return run_replay(replay)
    ctx = Ctx(PID, tier, "model_checking")
    notes: list[str] = []
    tasks = plan(tier, notes)
    only = os.environ.get("VF_SAMPLERS")
    if only:
        tasks = [t for t in tasks if t[0] in only.split(";")]
    ctx.add("tasks", len(tasks))
    pmap(ctx, task_fn, tasks)
    ctx.notes += notes
    ctx.cov.setdefault("programs_rejected_for_ties", 0)
    ctx.cov.setdefault("runs_raising", 0)
    for p in PRUNERS[1:]:
        if not ctx.cov.get(f"pairs_with_pruning[{p}]"):
            raise InternalError(f"no pair with a pruned trial for {p}: the pruning clause would be vacuous")
    ctx.assumptions += [
        "objective and intermediate values are dyadic rationals (multiples of 1/4096), pairwise distinct per objective "
        "and over all reported values of a study; verified on every run (programs_rejected_for_ties must be 0)",
        "InMemoryStorage, n_jobs=1, fixed study name (HyperbandPruner derives bracket ids from it), fresh sampler and "
        "pruner objects per run with identical arguments; ThresholdPruner(lower=L, upper=U) is mirrored as (lower=-U, upper=-L)",
        "multi-objective studies run without pruner (optuna does not support pruning there); GPSampler (single-objective "
        "only, n_startup_trials=3, 6 trials) runs in the thorough tier only; BruteForce/Grid skip the programs with continuous parameters",
        "the planned failing trial raises a ValueError subclass and only that subclass is caught, so a ValueError from "
        "inside optuna is not mistaken for the planned failure (it is recorded as the run's error and compared)",
        "the control pair (no objective flipped, i.e. the same run twice) must be identical, otherwise INTERNAL-ERROR",
    ]
    return ctx.finish(
        exhaustive=True,
        rule="full product: 9 sampler configurations (Random, TPE plain / multivariate+group+constant_liar / gamma=n/2, NSGA-II, NSGA-III, QMC, BruteForce, Grid; +GPSampler thorough) x seeds {0,1} (thorough {0..3}) x 9 pruner configurations x every "
             "objective program (3 reporting programs per value-based pruner, all 8 single-objective programs for NopPruner, "
             "2 two-objective and 2 three-objective programs) x every base direction vector x every non-empty subset of "
             "flipped objectives, n_trials=10 (thorough also 24); states = (sampler, pruner, seed, program, base directions, "
             "flipped subset); transitions = trials executed",
    )


def run_replay(path: str) -> int:
    rep = json.load(open(path))
    prog = PROGS[rep["program"]]
    part = Part()
    check_config(part, rep["sampler"], rep["pruner"], rep["seed"], prog, tuple(rep["directions_A"]),
                 rep["n_trials"], False)
    for key, r in part.viol.items():
        print(f"VIOLATION property={PID} replay={path}  # {key}")
        print(json.dumps({k: v for k, v in r.items() if not k.startswith("_")}, indent=1))
    if not part.viol:
        print(f"[{PID}] replay: no difference")
    return 1 if part.viol else 0


if __name__ == "__main__":
    main_wrapper(run)
