"""C05 - acknowledged writes survive a crash; an interrupted write is all-or-nothing.

Part A (journal over SimFS, fault enumeration by procx): a victim JournalStorage runs a short
history and dies at EVERY syscall boundary and, inside every record write, at EVERY byte offset;
then 1-2 survivors (storages opened before the crash) run every continuation of bounded length
(2 survivors: all interleavings of their syscalls, state-cached) and a fresh opener replays the
file. Oracle: survivors and opener see the reference state after `acked` or `acked+interrupted`
(+ their own calls), no survivor call raises, nothing acknowledged is lost, survivors terminate.
Part B (RDB over SQLite): vf/sqlx.py crash points at SQL-statement level.
"""
from __future__ import annotations

import os
from typing import Any

from optuna.storages import JournalStorage
from optuna.study import StudyDirection

from . import backends, simfs
from .backends import ListBackend
from .core import Ctx, InternalError, Part, main_wrapper, pmap
from .explore import Chooser, explore
from .linz import do_op, dump
from .sharness import S

PID = "C05"
PATH = "/sim/journal.log"

# ids after the common setup (journal ids are deterministic): study 0, trials 0 (victim's), 1 (survivor's)
IDS = {"s": 0, "t_v": 0, "t_s": 1}
SETUP = [("create_study", "S"), ("create_trial", "s", None), ("create_trial", "s", None),
         ("user_attr", "t_s", "a", 0)]

VICTIM_CALLS = {
    "create_study": ("create_study", "V"),
    "create_trial": ("create_trial", "s", None),
    "create_template": ("create_trial", "s", "comp"),
    "set_param": ("set_param", "t_v", "x", "f", 0.5),
    "finish": ("set_state", "t_v", S.COMPLETE, (1.0,)),
    "user_attr": ("user_attr", "t_v", "k", [1, {"k": None}]),
    "set_iv": ("set_iv", "t_v", 0, 0.5),
}
SURVIVOR_CALLS = {
    "create_trial": ("create_trial", "s", None),
    "user_attr": ("user_attr", "t_s", "k", 7),
    "finish": ("set_state", "t_s", S.COMPLETE, (2.0,)),
    "read": ("get_all_trials", "s", True, None),
    "read_studies": ("get_all_studies",),
}


def mk_storage(lock_kind: str) -> JournalStorage:
    from optuna.storages.journal import JournalFileBackend, JournalFileOpenLock, JournalFileSymlinkLock

    lock = (JournalFileSymlinkLock if lock_kind == "sym" else JournalFileOpenLock)(PATH)
    return JournalStorage(JournalFileBackend(PATH, lock_obj=lock))


def reference(calls: list[tuple]) -> Any:
    """Boring reference: the same calls, one at a time, on a JournalStorage over a Python list."""
    backends.reset_uuid()
    st = JournalStorage(ListBackend())
    for c in calls:
        try:
            do_op(st, c, IDS)
        except Exception:
            pass
    return dump(st)


class CrashRun:
    def __init__(self, lock: str, victim: tuple, crash: tuple, survivors: tuple, bufsize: int = 8192) -> None:
        """crash = (syscall ordinal at which the victim dies, optional (write ordinal, cut offset))."""
        self.lock, self.victim, self.crash, self.survivors, self.bufsize = lock, victim, crash, survivors, bufsize

    def _phase(self, fs: simfs.SimFS, ch: Chooser, bodies: list) -> simfs.ProcSched:
        fs.crashed = set()
        fs.proc_syscalls = {}
        fs.write_ordinal = {}
        fs.pdigest = {}
        fs.poll = {}
        sched = simfs.ProcSched(ch, fs)
        sched.ghost_key = lambda: self._ghost
        threads = sched.run(bodies)
        errs = [t.error for t in threads if t.error]
        if errs:
            raise InternalError(f"driver error {errs}")
        return sched

    def execute(self, ch: Chooser) -> dict:
        backends.reset_uuid()
        fs = simfs.SimFS(bufsize=self.bufsize)
        simfs.activate(fs)
        self._ghost: Any = ()
        try:
            s0 = mk_storage(self.lock)
            for c in SETUP:
                do_op(s0, c, IDS)
            surv = [mk_storage(self.lock) for _ in self.survivors]
            vic = mk_storage(self.lock)
            # ---- phase 1: the victim, alone, with its crash plan -------------------------------
            n_sys, cut = self.crash
            fs.crash_plan = {} if n_sys is None else {0: n_sys}
            fs.split_plan = {} if cut is None else {0: {cut[0]: [cut[1]]}}
            acked: list = []
            vstate = {"interrupted": None, "raised": None}

            def victim_body() -> None:
                for name in self.victim:
                    call = VICTIM_CALLS[name]
                    try:
                        do_op(vic, call, IDS)
                        acked.append(call)
                    except simfs.Crashed:
                        vstate["interrupted"] = call
                        return
                    except InternalError:
                        raise
                    except Exception as e:
                        vstate["raised"] = f"{name}: {type(e).__name__}: {e}"
                        return

            sched1 = self._phase(fs, Chooser(), [victim_body])
            syslog = list(fs.log)
            n_victim_syscalls = fs.proc_syscalls.get(0, 0)
            fs.crash_plan = {}
            fs.split_plan = {}
            # ---- phase 2: survivors -------------------------------------------------------------
            results: list = []

            def mk(i: int):
                def body() -> None:
                    for k, name in enumerate(self.survivors[i]):
                        fs.note(i, ("op", k))
                        sched2.point("op")
                        call = SURVIVOR_CALLS[name]
                        try:
                            do_op(surv[i], call, IDS)
                            results.append((i, name, "ok"))
                        except InternalError:
                            raise
                        except Exception as e:
                            results.append((i, name, f"{type(e).__name__}: {str(e)[:80]}"))
                        self._ghost = tuple(sorted(results))
                return body

            fs.crashed = set()
            fs.proc_syscalls = {}
            fs.write_ordinal = {}
            fs.pdigest = {}
            fs.poll = {}
            sched2 = simfs.ProcSched(ch, fs)
            sched2.ghost_key = lambda: self._ghost
            threads = sched2.run([mk(i) for i in range(len(surv))]) if surv else []
            errs = [t.error for t in threads if t.error and t.error != "deadlock"]
            if errs:
                raise InternalError(f"driver error {errs}")
            stuck = sched2.deadlock or sched2.livelock
            # ---- phase 3: observation by the survivors and by a fresh opener ---------------------
            obs: dict = {}

            def observer() -> None:
                for i, s in enumerate(surv):
                    obs[f"survivor{i}"] = dump(s)
                try:
                    obs["fresh"] = dump(mk_storage(self.lock))
                except InternalError:
                    raise
                except Exception as e:
                    obs["fresh"] = ("err", f"{type(e).__name__}: {str(e)[:80]}")

            if not stuck:
                self._phase(fs, Chooser(), [observer])
            return {"acked": acked, "interrupted": vstate["interrupted"], "victim_raised": vstate["raised"],
                    "results": results, "obs": obs, "stuck": stuck, "n_victim_syscalls": n_victim_syscalls,
                    "syslog": syslog, "steps": sched1.step + sched2.step,
                    "file_tail": bytes(fs.files[PATH].data[-120:]).decode(errors="replace")}
        finally:
            simfs.activate(None)

    def check(self, ex: dict) -> list[tuple[str, str]]:
        bad: list = []
        if ex["victim_raised"]:
            bad.append(("victim-call-raised-without-crash", ex["victim_raised"]))
        if ex["stuck"]:
            bad.append((f"survivors={len(self.survivors)}|survivors-do-not-terminate", ""))
            return bad
        for i, name, r in ex["results"]:
            if r != "ok":
                bad.append((f"survivors={len(self.survivors)}|survivor-call-raised:{name}:{r.split(':')[0]}", r))
        if any(r != "ok" for _, _, r in ex["results"]):
            return bad
        # which serial orders of the survivors' calls are possible? (each survivor's own order kept)
        import itertools

        progs = [[SURVIVOR_CALLS[n] for n in p] for p in self.survivors]
        orders = set()
        slots = [i for i, p in enumerate(progs) for _ in p]
        for perm in set(itertools.permutations(slots)):
            idx = [0] * len(progs)
            seq = []
            for i in perm:
                seq.append(progs[i][idx[i]])
                idx[i] += 1
            orders.add(tuple(seq))
        acked = ex["acked"]
        allowed = []
        for seq in orders:
            allowed.append(reference(SETUP + acked + list(seq)))
            if ex["interrupted"] is not None:
                allowed.append(reference(SETUP + acked + [ex["interrupted"]] + list(seq)))
        for who, o in ex["obs"].items():
            if isinstance(o, tuple) and len(o) == 2 and o[0] == "err":
                bad.append((f"{'fresh-opener' if who == 'fresh' else 'survivor'}-cannot-read", o[1].split(":")[0]))
            elif o not in allowed:
                bad.append((f"{'fresh-opener' if who == 'fresh' else 'survivor'}-state-not-acked-or-acked+1", ""))
        return bad


def crash_points(lock: str, victim: tuple) -> list[tuple]:
    """Dry run of the victim: every syscall ordinal, and for every record write every cut offset."""
    r = CrashRun(lock, victim, (None, None), ())
    ex = r.execute(Chooser())
    pts: list[tuple] = [(None, None)]
    n = ex["n_victim_syscalls"]
    writes = [(i, e) for i, e in enumerate([e for e in ex["syslog"] if e[0] == 0]) if e[1] == "write"]
    for k in range(n):
        pts.append((k, None))
    for wi, (ordinal, e) in enumerate(writes):
        length = e[3]
        for cut in range(1, length):
            # the cut makes this write two syscalls; dying before the second one leaves `cut` bytes
            pts.append((ordinal + 1, (wi, cut)))
    return pts


def scenarios(tier: str) -> list[tuple]:
    out = []
    cont1 = [(n,) for n in SURVIVOR_CALLS]
    cont2 = [("create_trial", "read"), ("user_attr", "finish"), ("read", "create_trial"), ("finish", "read_studies")]
    for lock in ("sym", "open"):
        singles = [(v,) for v in VICTIM_CALLS]
        multis = [("create_trial", "finish"), ("set_param", "user_attr", "finish"), ("create_study", "create_trial")]
        for victim in singles + (multis if tier == "thorough" else multis[:1]):
            conts = [(c,) for c in cont1]
            if tier == "thorough":
                conts += [(c,) for c in cont2]
            # two survivors (interleaved): a few collision-forcing pairs
            pairs = [(("create_trial",), ("create_trial",)), (("user_attr",), ("read",)), (("finish",), ("create_trial",))]
            if tier == "thorough":
                pairs += [(("create_trial", "read"), ("user_attr",)), (("read",), ("read_studies",))]
            two = victim in (("create_trial",), ("finish",), ("create_trial", "finish")) or tier == "thorough"
            if tier == "quick":
                pairs = pairs[:2] if victim == ("create_trial",) else pairs[:1]
            if victim == ("create_trial",) or tier == "thorough":
                # reader during the torn window, then two appends, then the same reader again
                pairs = list(pairs) + [(("read", "read"), ("create_trial", "user_attr"))]
            nchunks = 8
            for ci in range(nchunks):
                out.append((lock, victim, tuple(conts), tuple(pairs if two else ()), 2 if tier == "quick" else 3,
                            (ci, nchunks), tier))
    return out

# ---------------------------------------------------------------------------------------------
# Part B: RDBStorage over SQLite - the victim dies before every SQL statement and every commit
# ---------------------------------------------------------------------------------------------
RDB_IDS = {"s": 1, "t_v": 1, "t_s": 2}  # SQLite ids start at 1
RDB_VICTIM_CALLS = dict(VICTIM_CALLS, delete_study=("delete_study", "s"), create_waiting=("create_trial", "s", "wait"),
                        study_attr=("study_attr", "s", "k", [1]))


def rdb_reference(calls: list[tuple]) -> Any:
    backends.reset_uuid()
    path = backends.new_sqlite_file()
    st = backends.open_rdb(path)
    last = "ok"
    try:
        for c in calls:
            try:
                do_op(st, c, RDB_IDS)
                last = "ok"
            except Exception as e:
                last = type(e).__name__
        return dump(st), last
    finally:
        st.engine.dispose()
        os.unlink(path)


def rdb_crash_run(victim: str, crash_at: int | None, survivor_call: str | None, cached: bool) -> dict:
    from optuna.storages._cached_storage import _CachedStorage

    from . import sqlx, thx
    from .explore import Chooser as _Chooser

    backends.reset_uuid()
    path = backends.new_sqlite_file()
    opened = []

    def mk() -> Any:
        r = backends.open_rdb(path)
        opened.append(r)
        sqlx.attach(r)
        return _CachedStorage(r) if cached else r

    try:
        s0 = mk()
        for c in SETUP:
            do_op(s0, c, RDB_IDS)
        surv = mk()
        dump(surv)  # the survivor has read the database before the crash (warm caches)
        vic = mk()
        thx.set_instrumented([])
        sched = thx.Sched(_Chooser())
        world = sqlx.SqlWorld(sched)
        if crash_at is not None:
            world.crash_plan = {0: crash_at}
        sqlx.activate(world)
        st = {"acked": False, "raised": None}

        def body() -> None:
            try:
                do_op(vic, RDB_VICTIM_CALLS[victim], RDB_IDS)
                st["acked"] = True
            except sqlx.Crashed:
                opened[-1].engine.dispose()
                world.proc_died(0)
            except InternalError:
                raise
            except Exception as e:
                st["raised"] = f"{type(e).__name__}: {str(e)[:80]}"

        try:
            sched.run([body])
        finally:
            sqlx.activate(None)
        n_stmt = world.n_stmt.get(0, 0)
        res = None
        if survivor_call is not None:
            try:
                do_op(surv, SURVIVOR_CALLS[survivor_call], RDB_IDS)
                res = "ok"
            except Exception as e:
                res = f"{type(e).__name__}: {str(e)[:80]}"
        obs = {"survivor": dump(surv)}
        try:
            obs["fresh"] = dump(mk())
        except Exception as e:
            obs["fresh"] = ("err", f"{type(e).__name__}: {str(e)[:80]}")
        return {"acked": st["acked"], "raised": st["raised"], "n_stmt": n_stmt, "survivor_result": res, "obs": obs,
                "sql": world.log[-12:]}
    finally:
        for r in opened:
            try:
                r.engine.dispose()
            except Exception:
                pass
        if os.path.exists(path):
            os.unlink(path)


def rdb_task(task: tuple) -> dict:
    _, victim, cached, tier = task
    backends.setup_determinism()
    part = Part()
    dry = rdb_crash_run(victim, None, None, cached)
    n = dry["n_stmt"]
    part.add("crash_points", n)
    call = RDB_VICTIM_CALLS[victim]
    conts = [None, "create_trial", "read"] + (["user_attr", "finish"] if tier == "thorough" else [])
    refs: dict = {}

    def allowed(cont: str | None) -> list:
        if cont not in refs:
            tail = [SURVIVOR_CALLS[cont]] if cont else []
            refs[cont] = [rdb_reference(SETUP + tail), rdb_reference(SETUP + [call] + tail)]
        return refs[cont]

    outs: set = set()
    for k in [None] + list(range(n)):
        for cont in conts:
            ex = rdb_crash_run(victim, k, cont, cached)
            part.add("executions")
            part.add("transitions", ex["n_stmt"])
            cfg = "cached-rdb" if cached else "rdb"
            rep = {"engine": "procx/SQL+crash", "config": cfg, "victim": victim, "crash_before_statement": k,
                   "survivor_call": cont, "acked": ex["acked"], "sql_tail": ex["sql"]}
            if ex["raised"]:
                part.violation(f"rdb-sqlite|{cfg}|victim-call-raised-without-crash", dict(rep, detail=ex["raised"]))
            ok_pairs = allowed(cont)  # [(state, survivor outcome) without the victim's call, ... with it]
            cand = [ok_pairs[1]] if ex["acked"] else ok_pairs
            sres = None if ex["survivor_result"] is None else ex["survivor_result"].split(":")[0]
            if cont is not None and sres not in [o for _, o in cand]:
                part.violation(f"rdb-sqlite|{cfg}|survivor-call-raised:{cont}:{sres}", dict(rep, detail=ex["survivor_result"]))
                continue
            want = [st_ for st_, o in cand if cont is None or o == sres]
            for who, o in ex["obs"].items():
                outs.add(str(o)[:2000])
                if isinstance(o, tuple) and len(o) == 2 and o[0] == "err":
                    part.violation(f"rdb-sqlite|{cfg}|{who}-cannot-read", dict(rep, detail=o[1]))
                elif o not in want:
                    clause = "acknowledged-call-lost" if ex["acked"] else "state-not-acked-or-acked+1"
                    part.violation(f"rdb-sqlite|{cfg}|{who}|{clause}", rep)
    part.add("scenarios")
    part.add("states", len(outs))
    part.sample({"config": "cached-rdb" if cached else "rdb", "victim": victim, "statement_boundaries": n}, cap=1)
    return part.out()



def task_fn(task: tuple) -> dict:
    if task[0] == "rdb":
        return rdb_task(task)
    lock, victim, conts, pairs, bound, (ci, nchunks), tier = task
    backends.setup_determinism()
    simfs.install()
    part = Part()
    pts = crash_points(lock, victim)
    part.add("crash_points", len(pts))
    seen_out: set = set()
    tier_quick_pairs_cut = os.environ.get("VERIF_TIER_INTERNAL", "")

    def record(run: CrashRun, ch: Chooser, ex: dict) -> None:
        part.add("executions")
        part.add("transitions", ex["steps"])
        seen_out.add((str(ex["obs"].get("fresh")), tuple(ex["results"])))
        for clause, detail in run.check(ex):
            crash_kind = "no-crash" if run.crash[0] is None else ("mid-record" if run.crash[1] else "syscall-boundary")
            key = f"journal-simfs|lock={lock}|{crash_kind}|{clause}"
            part.violation(key, {"engine": "procx/SimFS+crash", "lock": lock, "victim": victim, "crash": run.crash,
                                 "survivors": run.survivors, "schedule": ch.choices, "clause": clause, "detail": detail,
                                 "acked": ex["acked"], "interrupted": ex["interrupted"], "results": ex["results"],
                                 "file_tail": ex["file_tail"]})

    first = True
    all_pts = pts
    pts = pts[ci::nchunks]
    part.cov["crash_points"] = len(pts)
    for crash in pts:
        for cont in (conts if crash[1] is None or tier == "thorough" else conts[:1] + conts[3:4]):
            run = CrashRun(lock, victim, crash, cont)
            ch = Chooser()
            ex = run.execute(ch)
            if first:
                ex2 = run.execute(Chooser())
                if (ex2["obs"], ex2["results"]) != (ex["obs"], ex["results"]):
                    raise InternalError(f"replaying one crash run twice differed: {task}")
                first = False
            record(run, ch, ex)
        # two survivors: all interleavings; mid-record cuts are sampled at first/middle/last offset
        # for the 2-survivor part only when the cut list is long (every cut is done with 1 survivor)
        if crash[1] is not None:
            L = max(c[1][1] for c in all_pts if c[1] is not None and c[1][0] == crash[1][0])
            if crash[1][1] not in (1, L // 2, L):
                continue
        for pair in pairs:
            run = CrashRun(lock, victim, crash, pair)
            st = explore(run.execute, bound, lambda ch, ex, run=run: record(run, ch, ex), max_execs=20000, cache_states=True)
            if st["capped"]:
                part.add("caps_hit")
    part.add("scenarios")
    part.add("states", len(seen_out))
    if ci == 0:
        part.sample({"lock": lock, "victim": victim, "crash_points": len(pts), "continuations": len(conts),
                     "two_survivor_programs": len(pairs)}, cap=1)
    return part.out()


def replay_case(raw: dict, part: Part) -> None:
    backends.setup_determinism()
    simfs.install()
    run = CrashRun(raw["lock"], tuple(raw["victim"]), tuple(raw["crash"]), tuple(tuple(p) for p in raw["survivors"]))
    ex = run.execute(Chooser(list(raw["schedule"])))
    print("acked:", ex["acked"], "interrupted:", ex["interrupted"], "survivor results:", ex["results"])
    for clause, detail in run.check(ex):
        part.violation(clause, raw)


def run(tier: str, replay: str | None = None) -> int:
    backends.setup_determinism()
    ctx = Ctx(PID, tier, "fault_enumeration")
    tasks = scenarios(tier)
    backends.sqlite_template()
    for victim in RDB_VICTIM_CALLS:
        tasks.append(("rdb", victim, False, tier))
        if tier == "thorough" or victim in ("create_template", "finish", "delete_study"):
            tasks.append(("rdb", victim, True, tier))
    pmap(ctx, task_fn, tasks)
    ctx.cov["evaluations"] = ctx.cov.get("executions", 0)
    ctx.cov["distinct_nontrivial"] = ctx.cov.get("states", 0)
    ctx.assumptions += [
        "crash = process death: bytes already written stay, nothing later happens; power loss / un-fsynced page cache is out of scope",
        "one crash per run; the victim runs alone until it dies, then the survivors (opened before the crash) run",
        "the clock jumps past the lock grace period only when no live process can make progress",
        "reference = the same calls one at a time on JournalStorage over a Python list (journal part) / on a fresh SQLite database (RDB part)",
        "RDB part: crash = the victim's session is closed without commit (process death + SQLite hot-journal rollback); crashes inside SQLite's own commit are SQLite's atomic-commit guarantee (trusted)",
    ]
    backends.cleanup_root()
    return ctx.finish(
        exhaustive=not ctx.cov.get("caps_hit"),
        rule="SQLite: every storage call of a 10-call menu x death before EVERY SQL statement and commit x survivor continuation (survivor opened before the crash, raw and cached) + fresh opener; journal: victim history x EVERY syscall boundary and EVERY byte offset of every record write x every survivor continuation (1 survivor: sequential; 2 survivors: all interleavings up to preemption bound 2 quick / 3 thorough, state-cached) x both lock classes; distinct_nontrivial = distinct (final state, survivor results) outcomes",
    )


if __name__ == "__main__":
    main_wrapper(run)
