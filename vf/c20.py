"""C20 - objects read from a study are snapshots: later writes never change them.

seqx: getter x setter (x second setter) x backend product on a seeded study (RUNNING trial held
by a live Trial object, COMPLETE trial, WAITING trial). A deep digest of the object taken at read
time must equal its digest after every later write; mutating every mutable field of a deep-copied
result must leave the next read of the study unchanged.
"""
from __future__ import annotations

import copy
import itertools
import os
from typing import Any, Callable

import optuna
from optuna.distributions import FloatDistribution
from optuna.trial import TrialState

from . import backends
from .backends import Env
from .canon import state_digest
from .core import Ctx, InternalError, Part, main_wrapper, pmap
from .sharness import DISTS, template

PID = "C20"
CONFIGS = ["mem", "jfile-sym", "grpc(mem)", "cached", "rdb"]


class W:
    """Seeded world."""

    def __init__(self, config: str, fresh: bool = False) -> None:
        self.env = Env(config)
        self.st = self.env.storage
        self.study = optuna.create_study(storage=self.st, study_name="c20", sampler=optuna.samplers.RandomSampler(seed=0))
        # the study may wrap the storage (RDBStorage -> _CachedStorage): use what the study uses
        self.st = self.study._storage
        self.sid = self.study._study_id
        self.study.set_user_attr("ua", {"k": [1]})
        self.study.set_system_attr("sa", {"k": [1]})
        done = self.study.ask()
        done.suggest_float("x", 0, 1)
        self.study.tell(done, 0.5)
        self.t_done = done._trial_id
        self.study.enqueue_trial({"x": 0.25}, user_attrs={"q": [1]})
        self.t_wait = [t for t in self.st.get_all_trials(self.sid, deepcopy=False) if t.state == TrialState.WAITING][0]._trial_id
        self.t_run = self.st.create_new_trial(self.sid)
        self.tr = optuna.trial.Trial(self.study, self.t_run)  # what study.ask() builds
        if not fresh:  # fresh = the state right after ask(): nothing written to the trial yet
            self.tr.suggest_float("x", 0, 1)
            self.tr.report(0.5, 0)
            self.tr.set_user_attr("u", [1])

    def close(self) -> None:
        self.env.close()


GETTERS: dict[str, Callable[[W], Any]] = {
    "storage.get_trial": lambda w: w.st.get_trial(w.t_run),
    "storage.get_trial(waiting)": lambda w: w.st.get_trial(w.t_wait),
    "storage.get_all_trials(deepcopy=False)": lambda w: w.st.get_all_trials(w.sid, deepcopy=False),
    "storage.get_all_trials(deepcopy=True)": lambda w: w.st.get_all_trials(w.sid, deepcopy=True),
    "storage.get_all_trials(False,RUNNING)": lambda w: w.st.get_all_trials(w.sid, deepcopy=False, states=(TrialState.RUNNING,)),
    "storage.get_all_trials(False,WAITING)": lambda w: w.st.get_all_trials(w.sid, deepcopy=False, states=(TrialState.WAITING,)),
    "storage.get_best_trial": lambda w: w.st.get_best_trial(w.sid),
    "storage.get_all_studies": lambda w: w.st.get_all_studies(),
    "study.trials": lambda w: w.study.trials,
    "study.get_trials(deepcopy=False)": lambda w: w.study.get_trials(deepcopy=False),
    "study._get_trials(use_cache=True)": lambda w: w.study._get_trials(deepcopy=False, use_cache=True),
    "study.best_trial": lambda w: w.study.best_trial,
    "study.best_trials": lambda w: w.study.best_trials,
    "study.user_attrs": lambda w: w.study.user_attrs,
    "study.system_attrs": lambda w: w.study.system_attrs,
    "trial.params": lambda w: w.tr.params,
    "trial.user_attrs": lambda w: w.tr.user_attrs,
    "trial.distributions": lambda w: w.tr.distributions,
    "trial.system_attrs": lambda w: w.tr.system_attrs,
}


def _optimize_tell(w: W, value: Any) -> None:
    from optuna.study._tell import _tell_with_warning

    _tell_with_warning(study=w.study, trial=w.tr, value_or_values=value, state=None, suppress_warning=True)


def _add_trial(w: W) -> None:
    w.study.add_trial(optuna.trial.create_trial(params={"x": 0.75}, distributions={"x": FloatDistribution(0, 1)}, value=0.1))


SETTERS: dict[str, Callable[[W], Any]] = {
    "storage.set_trial_param": lambda w: w.st.set_trial_param(w.t_run, "p", 0.5, DISTS["f"]),
    "storage.set_trial_user_attr": lambda w: w.st.set_trial_user_attr(w.t_run, "u", [2, 3]),
    "storage.set_trial_system_attr": lambda w: w.st.set_trial_system_attr(w.t_run, "s", {"a": 1}),
    "storage.set_trial_intermediate_value": lambda w: w.st.set_trial_intermediate_value(w.t_run, 0, 9.0),
    "storage.finish": lambda w: w.st.set_trial_state_values(w.t_run, TrialState.COMPLETE, [0.01]),
    "storage.claim_waiting": lambda w: w.st.set_trial_state_values(w.t_wait, TrialState.RUNNING),
    "storage.set_study_user_attr": lambda w: w.st.set_study_user_attr(w.sid, "ua", {"k": [2]}),
    "storage.set_study_system_attr": lambda w: w.st.set_study_system_attr(w.sid, "sa", {"k": [2]}),
    "storage.create_new_trial": lambda w: w.st.create_new_trial(w.sid),
    "storage.create_new_trial(template)": lambda w: w.st.create_new_trial(w.sid, template("comp", 1)),
    "trial.suggest_float(new)": lambda w: w.tr.suggest_float("z", 0, 1),
    "trial.suggest_categorical(new)": lambda w: w.tr.suggest_categorical("c", ["a", "b"]),
    "trial.report": lambda w: w.tr.report(0.25, 1),
    "trial.set_user_attr": lambda w: w.tr.set_user_attr("u", [9]),
    "trial.set_user_attr(new key)": lambda w: w.tr.set_user_attr("u2", {"n": 1}),
    "trial.set_system_attr": lambda w: w.tr.storage.set_trial_system_attr(w.tr._trial_id, "s2", 1),
    "study.set_user_attr": lambda w: w.study.set_user_attr("ua", {"k": [3]}),
    "study.set_user_attr(new key)": lambda w: w.study.set_user_attr("ub", 1),
    "study.tell": lambda w: w.study.tell(w.tr, 0.001),
    # what Study.optimize does with an objective's return value (the public tell() never takes the
    # suppress_warning branch): an unacceptable value fails the trial and records the warning
    "optimize-tell(nan)": lambda w: _optimize_tell(w, float("nan")),
    "optimize-tell(None)": lambda w: _optimize_tell(w, None),
    "optimize-tell(1.0)": lambda w: _optimize_tell(w, 1.0),
    "study.enqueue_trial": lambda w: w.study.enqueue_trial({"x": 0.5}),
    "study.add_trial": _add_trial,
    "study.ask": lambda w: w.study.ask(),
}


def mutate_everything(obj: Any) -> None:
    """Scribble over every mutable field of a (deep-copied) result."""
    if isinstance(obj, list):
        for o in obj:
            mutate_everything(o)
        obj.append("junk")
        return
    if isinstance(obj, dict):
        for k in list(obj):
            v = obj[k]
            if isinstance(v, (list, dict)):
                mutate_everything(v)
            obj[k] = "junk"
        obj["junk"] = 1
        return
    d = getattr(obj, "__dict__", None)
    if d is None:
        return
    for k, v in list(d.items()):
        if isinstance(v, dict):
            for kk in list(v):
                if isinstance(v[kk], (list, dict)):
                    mutate_everything(v[kk])
            v["junk"] = 1
            for kk in list(v):
                v[kk] = "junk"
        elif isinstance(v, list):
            v.append("junk")
    for attr in ("state", "number"):
        if hasattr(obj, attr):
            try:
                setattr(obj, attr, TrialState.FAIL if attr == "state" else 99)
            except Exception:
                pass


def read_all(w: W) -> str:
    """Digest of everything the study returns (for the deep-copy clause)."""
    return state_digest([
        w.st.get_all_trials(w.sid, deepcopy=True), w.st.get_all_studies(), w.study.user_attrs, w.study.system_attrs,
        w.st.get_trial(w.t_run), w.st.get_trial(w.t_done),
    ])


def one(config: str, gname: str, snames: tuple, part: Part, fresh: bool = False) -> None:
    w = W(config, fresh)
    try:
        try:
            obj = GETTERS[gname](w)
        except Exception as e:
            raise InternalError(f"getter {gname} raised {type(e).__name__}: {e} on {config}")
        d0 = state_digest(obj)
        part.add("evaluations")
        for i, sn in enumerate(snames):
            try:
                SETTERS[sn](w)
            except InternalError:
                raise
            except Exception as e:
                part.note(f"setter {sn} raised {type(e).__name__} after {snames[:i]} on {config}")
                continue
            part.add("transitions")
            if state_digest(obj) != d0:
                key = f"{config}|{'after-ask' if fresh else 'mid-trial'}|{gname}|changed-by|{sn}"
                part.violation(key, {"config": config, "getter": gname, "setters": snames, "changed_after": sn,
                                     "world": "RUNNING trial just asked, nothing written yet" if fresh else "RUNNING trial with a param, a report and a user attr",
                                     "clause": "object obtained from the study changed after a later write"})
                return
        # deep-copy clause: scribbling over a deep copy must not change what the study returns
        before = read_all(w)
        cp = copy.deepcopy(GETTERS[gname](w))
        mutate_everything(cp)
        if read_all(w) != before:
            part.violation(f"{config}|{gname}|mutating-a-deepcopy-changed-the-study",
                           {"config": config, "getter": gname, "setters": snames})
    finally:
        w.close()

# ---------------------------------------------------------------------------------------------
# references taken INSIDE a running optimize (objective and callbacks hold objects, then the
# trial is finished by optimize's own tell path)
# ---------------------------------------------------------------------------------------------
INSIDE_VARIANTS = ["ret-1.0", "ret-nan", "ret-None", "ret-'5'", "raise-ValueError", "prune-after-report", "ret-wrong-arity"]


def inside_optimize(config: str, variant: str, part: Part) -> None:
    env = Env(config)
    try:
        study = optuna.create_study(storage=env.storage, study_name="c20in", sampler=optuna.samplers.RandomSampler(seed=0))
        st = study._storage
        sid = study._study_id
        held: list = []  # (where, getter name, object, digest at read time)

        def grab(where: str, trial_id: int) -> None:
            reads = {
                "storage.get_trial": lambda: st.get_trial(trial_id),
                "storage.get_all_trials(deepcopy=False)": lambda: st.get_all_trials(sid, deepcopy=False),
                "study.get_trials(deepcopy=False)": lambda: study.get_trials(deepcopy=False),
                "study._get_trials(use_cache=True)": lambda: study._get_trials(deepcopy=False, use_cache=True),
                "study.trials": lambda: study.trials,
                "storage.get_trial.system_attrs": lambda: st.get_trial(trial_id).system_attrs,
                "storage.get_trial.user_attrs": lambda: st.get_trial(trial_id).user_attrs,
                "storage.get_trial.intermediate_values": lambda: st.get_trial(trial_id).intermediate_values,
            }
            for name, fn in reads.items():
                obj = fn()
                held.append((where, name, obj, state_digest(obj)))

        def objective(trial: optuna.Trial) -> Any:
            grab("objective-start", trial._trial_id)
            trial.suggest_float("x", 0, 1)
            trial.set_user_attr("u", [1])
            grab("objective-after-suggest", trial._trial_id)
            if variant == "prune-after-report":
                trial.report(0.5, 0)
                grab("objective-after-report", trial._trial_id)
                raise optuna.TrialPruned()
            if variant == "raise-ValueError":
                raise ValueError("boom")
            return {"ret-1.0": 1.0, "ret-nan": float("nan"), "ret-None": None, "ret-'5'": "5", "ret-wrong-arity": [1.0, 2.0]}[variant]

        def cb(study_: Any, ft: Any) -> None:
            held.append(("callback-arg", "frozen trial passed to the callback", ft, state_digest(ft)))
            grab("callback", ft._trial_id)

        study.optimize(objective, n_trials=2, catch=(ValueError,), callbacks=[cb])
        study.enqueue_trial({"x": 0.5})
        study.optimize(objective, n_trials=1, catch=(ValueError,), callbacks=[cb])
        part.add("evaluations")
        part.add("transitions", len(held))
        for where, name, obj, d0 in held:
            if state_digest(obj) != d0:
                part.violation(f"{config}|inside-optimize|{name}|read-at:{where}|changed-after:{variant}",
                               {"config": config, "variant": variant, "getter": name, "read_at": where,
                                "clause": "object read during optimize changed after optimize finished the trial"})
                break
    finally:
        env.close()



def task_fn(task: tuple) -> dict:
    if task[0] == "inside":
        backends.setup_determinism()
        part = Part()
        for v in INSIDE_VARIANTS:
            inside_optimize(task[1], v, part)
            part.add("states")
        return part.out()
    config, gname, depth, fresh = task
    backends.setup_determinism()
    part = Part()
    for sn in SETTERS:
        one(config, gname, (sn,), part, fresh)
        part.add("states")
    if depth >= 2:
        for a, b in itertools.permutations(list(SETTERS), 2):
            one(config, gname, (a, b), part, fresh)
            part.add("states")
    part.sample({"config": config, "getter": gname, "setters": list(SETTERS)[:3]}, cap=1)
    return part.out()


def replay_case(raw: dict, part: Part) -> None:
    backends.setup_determinism()
    backends.sqlite_template()
    if "variant" in raw:
        inside_optimize(raw["config"], raw["variant"], part)
        return
    one(raw["config"], raw["getter"], tuple(raw["setters"]), part, fresh=raw.get("world", "").startswith("RUNNING trial just asked"))


def run(tier: str, replay: str | None = None) -> int:
    backends.setup_determinism()
    ctx = Ctx(PID, tier, "model_checking")
    backends.sqlite_template()
    tasks = []
    for cfg in CONFIGS:
        slow = cfg in ("cached", "rdb")
        for g in GETTERS:
            depth = 2 if (tier == "thorough" or not slow) else 1
            if tier == "quick" and cfg in ("jfile-sym", "grpc(mem)") and not g.startswith(("storage.get_trial", "storage.get_all_trials(deepcopy=False)", "study.get_trials", "study._get", "trial.")):
                depth = 1
            tasks.append((cfg, g, depth, False))
            tasks.append((cfg, g, 1 if tier == "quick" else depth, True))
    only = os.environ.get("VF_CONFIGS")
    if only:
        tasks = [t for t in tasks if t[0] in only.split(",")]
    for cfg in CONFIGS:
        if not only or cfg in only.split(","):
            tasks.append(("inside", cfg))
    pmap(ctx, task_fn, tasks)
    ctx.cov["traces_validated_against_impl"] = ctx.cov.get("evaluations", 0)
    ctx.assumptions += [
        "dictionaries returned by the STORAGE-level study-attribute getters are not demanded to be copies (the statement says 'obtained from a study')",
        "digest = every attribute of every reachable object (datetimes by None-ness)",
    ]
    backends.cleanup_root()
    return ctx.finish(
        exhaustive=True,
        rule="every getter x every setter (and every ordered pair of setters) x backend on a seeded study (RUNNING trial held by a live Trial, COMPLETE, WAITING); digest at read time = digest after each later write; scribbling over a deep copy leaves the study unchanged",
    )


if __name__ == "__main__":
    main_wrapper(run)
