"""redisx: scheduling seam for JournalRedisBackend (fakeredis server shared by "processes").

Every Redis command of a managed thread is a scheduling point; time.sleep inside the backend's
polling loop blocks the sleeper until another process has written to Redis (waiting made visible).
"""
from __future__ import annotations

from typing import Any

from . import thx
from .core import InternalError

SLEEP = "redis-poll-sleep"
_WRITES = {"set", "setnx", "incr", "eval", "delete", "mset", "append"}


class PollSched(thx.Sched):
    def __init__(self, chooser: Any, max_spins: int = 50) -> None:
        super().__init__(chooser)
        self.spins = 0
        self.max_spins = max_spins
        self.livelock = False

    def sleep(self) -> None:
        t = self.me()
        if t is None:
            return
        t.blocked_on = SLEEP
        t.in_point = True
        try:
            self.step += 1
            self._switch(t)
        finally:
            t.in_point = False

    def progress(self) -> None:
        me = self.me()
        for x in self.threads:
            if x.blocked_on is SLEEP and x is not me:
                x.blocked_on = None

    def _enabled(self) -> list:
        en = super()._enabled()
        if en:
            return en
        sleepers = [t for t in self.threads if not t.done and t.blocked_on is SLEEP]
        if sleepers:
            # everybody polls and nobody can write any more: a poller would wait forever
            self.livelock = True
        return en


class SchedRedis:
    """Proxy around a (fake)redis client: command methods are scheduling points."""

    def __init__(self, client: Any) -> None:
        object.__setattr__(self, "_c", client)

    def __getattr__(self, name: str) -> Any:
        attr = getattr(self._c, name)
        if not callable(attr) or name.startswith("_"):
            return attr

        def call(*a: Any, **k: Any) -> Any:
            s = thx._ACTIVE
            if isinstance(s, PollSched) and s.me() is not None:
                s.point("redis", name)
                r = attr(*a, **k)
                if name in _WRITES:
                    s.progress()
                return r
            return attr(*a, **k)

        return call


class _FakeTime:
    def sleep(self, secs: float) -> None:
        s = thx._ACTIVE
        if isinstance(s, PollSched) and s.me() is not None:
            s.sleep()
            return
        raise InternalError("JournalRedisBackend polled outside a scheduled run (a record is reserved but was never stored)")

    def __getattr__(self, name: str) -> Any:
        import time

        return getattr(time, name)


_installed = False


def install() -> None:
    global _installed
    if _installed:
        return
    import optuna.storages.journal._redis as jr

    jr.time = _FakeTime()  # type: ignore[assignment]
    _installed = True
