"""C06 - journal replay is deterministic: all workers converge on the same state.

seqx over the real JournalStorage / JournalStorageReplayResult: every sequence of <= d calls
issued by 2-3 workers (distinct worker ids, one shared list-backed backend; also fakeredis) from an
alphabet that includes the REJECTED calls; optionally a foreign append lands between a call's
append and its read (all such landing points). For every resulting log: all workers agree with a
fresh replay after every call; every one of the 2^(n-1) batch splits gives the same state; for
every snapshot position and worker, snapshot + tail gives the same state; a rejected call raises
only at its issuer and changes no worker's state; log_number_read = records consumed.
"""
from __future__ import annotations

import itertools
import json
import os
import pickle
from typing import Any

from optuna.storages import JournalStorage
from optuna.storages.journal._base import BaseJournalBackend, BaseJournalSnapshot

from . import backends
from .canon import canon_value
from .core import Ctx, InternalError, Part, main_wrapper, pmap
from .linz import do_op
from .sharness import S, trial_canon

PID = "C06"


class SharedLog(BaseJournalBackend, BaseJournalSnapshot):
    """List-backed backend. `cuts` (sorted record indexes) make read_logs return at most up to
    the next cut: the way to feed a replay in arbitrary batches through the real read path.
    `after_append` lets a foreign append land between a call's append and its read."""

    def __init__(self, logs: list | None = None, cuts: tuple = (), snapshot: bytes | None = None) -> None:
        self.logs: list[str] = logs if logs is not None else []
        self.cuts = cuts
        self.snapshot = snapshot
        self.after_append: Any = None

    def read_logs(self, log_number_from: int) -> list[dict[str, Any]]:
        end = len(self.logs)
        for c in self.cuts:
            if c > log_number_from:
                end = min(end, c)
                break
        return [json.loads(s) for s in self.logs[log_number_from:end]]

    def append_logs(self, logs: list[dict[str, Any]]) -> None:
        for log in logs:
            self.logs.append(json.dumps(log, separators=(",", ":")))
        cb, self.after_append = self.after_append, None
        if cb is not None:
            cb()

    def save_snapshot(self, snapshot: bytes) -> None:
        self.snapshot = snapshot

    def load_snapshot(self) -> bytes | None:
        return self.snapshot


_SHARED: dict[int, SharedLog] = {}


def _view_of(key: int) -> "View":
    return View(_SHARED[key])


class View(BaseJournalBackend, BaseJournalSnapshot):
    """Per-worker view of a SharedLog (own `after_append`, shared records). Pickling a view (a
    storage handed to a child process) yields another view of the SAME log."""

    def __init__(self, shared: SharedLog) -> None:
        self.shared = shared

    def __reduce__(self) -> tuple:
        _SHARED[id(self.shared)] = self.shared
        return (_view_of, (id(self.shared),))

    def read_logs(self, k: int) -> list[dict[str, Any]]:
        return self.shared.read_logs(k)

    def append_logs(self, logs: list[dict[str, Any]]) -> None:
        self.shared.append_logs(logs)

    def save_snapshot(self, snapshot: bytes) -> None:
        pass

    def load_snapshot(self) -> bytes | None:
        return None


def _tc(t: Any) -> tuple:
    """trial_canon + the exact datetimes: in a journal they come from the records, so every worker
    must reproduce them bit for bit."""
    return trial_canon(t, None) + (("dt_exact", str(t.datetime_start), str(t.datetime_complete)),)


def jdump(st: JournalStorage, n_trials_hint: int = 8) -> Any:
    """Canonical state through the public getters: all studies, all trials, every trial id."""
    out = []
    for fs in sorted(st.get_all_studies(), key=lambda s: s._study_id):
        ts = tuple(_tc(t) for t in st.get_all_trials(fs._study_id, deepcopy=False))
        out.append((fs._study_id, fs.study_name, tuple(d.name for d in fs.directions),
                    canon_value(fs.user_attrs), canon_value(fs.system_attrs), ts))
    by_id = []
    for tid in range(n_trials_hint):
        try:
            by_id.append(_tc(st.get_trial(tid)))
        except KeyError:
            by_id.append("KeyError")
    return (tuple(out), tuple(by_id))


class _Stop(Exception):
    pass


IDS = {"s": 0, "s2": 1, "t": 0, "t2": 1, "never_s": 77, "never_t": 77}
SEED_OPS = [("create_study", "S"), ("create_trial", "s", None)]

ALPHABET = {
    "create_study_A": ("create_study", "A"),
    "create_study_dup": ("create_study", "S"),  # rejected: duplicate name
    "create_trial": ("create_trial", "s", None),
    "create_waiting": ("create_trial", "s", "bare_wait"),
    "create_in_unknown": ("create_trial", "never_s", None),  # rejected: unknown study
    # trial in the second study (rejected until it exists): the only way to allocate a trial id
    # after the first study - and its trials - were deleted
    "create_trial_s2": ("create_trial", "s2", None),
    "param_f": ("set_param", "t", "p", "f", 0.5),
    "param_i": ("set_param", "t2", "p", "i", 3.0),  # rejected when p:float exists in the study
    "attr": ("user_attr", "t", "k", 1),
    "attr_unknown": ("user_attr", "never_t", "k", 1),  # rejected: unknown trial
    "iv": ("set_iv", "t", 0, 0.5),
    "finish": ("set_state", "t", S.COMPLETE, (1.0,)),  # afterwards writes to t are rejected
    "claim2": ("set_state", "t2", S.RUNNING, None),
    "rerun_values": ("set_state", "t", S.RUNNING, (5.0,)),  # RUNNING->RUNNING: rejected (returns False)
    "delete": ("delete_study", "s"),
    "study_attr": ("study_attr", "s", "k", [1]),
}
NAMES = list(ALPHABET)
FOREIGN = ["create_trial", "finish", "delete", "param_f"]


def mk_worker(shared: SharedLog) -> JournalStorage:
    return JournalStorage(View(shared))


def run_sequence(seq: tuple, n_workers: int, part: Part, backend_kind: str = "list") -> None:
    try:
        _run_sequence(seq, n_workers, part)
    except _Stop:
        pass


def _run_sequence(seq: tuple, n_workers: int, part: Part) -> None:
    """seq: tuple of (worker, op name, foreign-landing or None); foreign = (worker, op name)."""
    backends.reset_uuid()
    shared = SharedLog()
    orig_n = n_workers
    workers = [mk_worker(shared) for _ in range(max(n_workers, 1))]
    for op in SEED_OPS:
        do_op(workers[0], op, IDS)
    if n_workers < 0:
        # the other workers are pickled copies of the first one (a storage handed to child
        # processes): they must behave like independently opened storages
        _SHARED.clear()
        blob = pickle.dumps(workers[0])
        workers += [pickle.loads(blob) for _ in range(-n_workers - 1)]
        n_workers = -n_workers
    snaps: list = []  # (log length, worker idx, pickled replay result)
    prev = None

    def fail(clause: str, detail: Any) -> None:
        part.violation(f"journal-replay|{clause}{'|pickled-worker' if orig_n < 0 else ''}", {"sequence": seq, "n_workers": orig_n, "clause": clause,
                                                    "detail": detail, "log": list(shared.logs)})

    def sync_all_and_compare(tag: str) -> Any:
        try:
            fresh = JournalStorage(SharedLog(list(shared.logs)))
            want = jdump(fresh)
        except Exception as e:
            fail("fresh-replay-raises", f"{type(e).__name__}: {str(e)[:80]} ({tag})")
            raise _Stop()
        for wi, w in enumerate(workers):
            try:
                got = jdump(w)
            except Exception as e:
                fail("non-issuer-raises-on-sync", f"worker {wi} {type(e).__name__}: {e} ({tag})")
                return want
            if got != want:
                fail("worker-differs-from-fresh-replay", f"worker {wi} after {tag}")
            if w._replay_result.log_number_read != len(shared.logs):
                fail("log_number_read-differs-from-records-consumed",
                     f"worker {wi}: {w._replay_result.log_number_read} vs {len(shared.logs)} after {tag}")
        return want

    prev = sync_all_and_compare("seed")
    for wi, w in enumerate(workers):
        snaps.append((len(shared.logs), wi, pickle.dumps(w._replay_result)))
    for step, (wi, name, foreign) in enumerate(seq):
        w = workers[wi]
        n_before = len(shared.logs)
        foreign_out: list = []
        if foreign is not None:
            fw, fname = foreign

            def land(fw: int = fw, fname: str = fname) -> None:
                try:
                    do_op(workers[fw], ALPHABET[fname], IDS)
                    foreign_out.append("ok")
                except Exception as e:
                    foreign_out.append(type(e).__name__)

            shared.after_append = land
        try:
            do_op(w, ALPHABET[name], IDS)
            out = "ok"
        except InternalError:
            raise
        except Exception as e:
            out = type(e).__name__
        shared.after_append = None
        part.add("transitions")
        if out not in ("ok", "KeyError", "DuplicatedStudyError", "UpdateFinishedTrialError", "ValueError"):
            fail("issuer-raises-unexpected-class", f"{name}: {out}")
        cur = sync_all_and_compare(f"step {step} {name}@{wi}")
        if out != "ok" and foreign is None and cur != prev:
            fail("rejected-call-changed-state", f"{name}@{wi} raised {out}")
        if out != "ok" and foreign is not None:
            # the state may only contain the foreign call's effect: compare with a run without the rejected call
            alt = JournalStorage(SharedLog([s for i, s in enumerate(shared.logs) if i != n_before]))
            if jdump(alt) != cur:
                fail("rejected-call-changed-state", f"{name}@{wi} raised {out} (foreign {foreign})")
        prev = cur
        for wj, ww in enumerate(workers):
            snaps.append((len(shared.logs), wj, pickle.dumps(ww._replay_result)))
    final = prev
    n = len(shared.logs)
    part.add("logs")
    part.setmax("max_log_len", n)
    # every batch split of the same log, through the real read path
    for r in range(0, n):
        for cuts in itertools.combinations(range(1, n), r):
            part.add("splits")
            try:
                st = JournalStorage(SharedLog(list(shared.logs), cuts=cuts))
                guard = 0
                while st._replay_result.log_number_read < n and guard < n + 2:
                    st._sync_with_backend()
                    guard += 1
                got = jdump(st)
            except Exception as e:
                fail("batch-split-replay-raises", f"cuts={cuts} {type(e).__name__}")
                break
            if got != final:
                fail("batch-split-changes-state", f"cuts={cuts}")
                break
    # every snapshot position x worker: snapshot + tail
    for pos, wi, blob in snaps:
        part.add("snapshots")
        try:
            st = JournalStorage(SharedLog(list(shared.logs), snapshot=blob))
            got = jdump(st)
        except Exception as e:
            fail("snapshot-plus-tail-replay-raises", f"pos={pos} worker={wi} {type(e).__name__}")
            continue
        if st._replay_result.log_number_read != n:
            fail("snapshot-restore-log_number_read", f"pos={pos} worker={wi}")
        elif got != final:
            fail("snapshot-plus-tail-changes-state", f"pos={pos} worker={wi}")
    if n >= 5:
        part.sample({"sequence": seq, "log_len": n}, cap=2)


def task_fn(task: tuple) -> dict:
    kind, n_workers, depth, first = task
    backends.setup_determinism()
    part = Part()
    if kind == "plain":
        # all sequences of `depth` calls whose first call is `first`
        rest = list(itertools.product(range(abs(n_workers)), NAMES))
        for tail in itertools.product(rest, repeat=depth - 1):
            seq = (first + (None,),) + tuple(t + (None,) for t in tail)
            run_sequence(seq, n_workers, part)
            part.add("evaluations")
    else:
        # foreign landing: sequences of `depth` calls, exactly one of which has a foreign call landing
        rest = list(itertools.product(range(abs(n_workers)), NAMES))
        for tail in itertools.product(rest, repeat=depth - 1):
            base = (first,) + tail
            for pos in range(depth):
                for fname in FOREIGN:
                    fw = (base[pos][0] + 1) % abs(n_workers)
                    seq = tuple(c + ((fw, fname) if i == pos else None,) for i, c in enumerate(base))
                    run_sequence(seq, n_workers, part)
                    part.add("evaluations")
    return part.out()


def replay_case(raw: dict, part: Part) -> None:
    backends.setup_determinism()
    run_sequence(tuple(raw["sequence"]), raw["n_workers"], part)


def run(tier: str, replay: str | None = None) -> int:
    backends.setup_determinism()
    ctx = Ctx(PID, tier, "model_checking")
    tasks = []
    d = 3 if tier == "quick" else 4
    for first in itertools.product(range(2), NAMES):
        tasks.append(("plain", 2, d, first))
    for first in itertools.product(range(2), NAMES):
        tasks.append(("foreign", 2, 2 if tier == "quick" else 3, first))
    # worker 1 is a pickled copy of worker 0 (n_workers = -2)
    for first in itertools.product(range(2), NAMES):
        tasks.append(("plain", -2, 2 if tier == "quick" else 3, first))
        tasks.append(("foreign", -2, 2, first))
    if tier == "thorough":
        for first in itertools.product(range(3), NAMES):
            tasks.append(("plain", 3, 3, first))
    pmap(ctx, task_fn, tasks)
    ctx.cov["states"] = ctx.cov.get("logs", 0)
    ctx.cov["traces_validated_against_impl"] = ctx.cov.get("splits", 0) + ctx.cov.get("snapshots", 0)
    ctx.assumptions += [
        "backend = list of JSON strings (records cross json exactly as on a file); file/redis specifics are C07/C01",
        "issuer-private bookkeeping (owned trial, last created trial) is not compared: worker-local by design",
    ]
    return ctx.finish(
        exhaustive=True,
        rule="every sequence of d calls (d=3 quick / 4 thorough, after a 2-record seed) by 2 workers over a 16-op alphabet incl. rejected calls; every sequence of 2/3 calls with one foreign append landing between a call's append and read; per log: all 2^(n-1) batch splits and all snapshot positions x workers; the same with worker 1 being a pickled copy of worker 0 (depth 2 / 3)",
    )


if __name__ == "__main__":
    main_wrapper(run)
