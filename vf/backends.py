"""Backend configurations (DESIGN 2.8) and the in-process gRPC transport (DESIGN 2.4).

make_env(config) returns an Env whose .storage is the object under test. Everything is built from
the optuna that /venv/bin/python imports (= /repo working tree, editable install).
"""
from __future__ import annotations

import contextlib
import itertools
import os
import shutil
import sqlite3
import tempfile
import uuid as _uuid
import warnings
from typing import Any

import optuna
from optuna.storages import InMemoryStorage, JournalStorage, RDBStorage
from optuna.storages._cached_storage import _CachedStorage
from optuna.storages.journal import JournalFileBackend, JournalFileOpenLock, JournalFileSymlinkLock

from .canon import state_digest

FAST = ["mem", "jlist", "jfile-sym", "jfile-open", "jredis", "grpc(mem)", "grpc(jfile-sym)", "grpc(jredis)"]
SLOW = ["rdb", "cached", "grpc(rdb)", "grpc(cached)"]
ALL = FAST + SLOW

_SHM = "/dev/shm" if os.path.isdir("/dev/shm") else tempfile.gettempdir()
_counter = itertools.count()
_uuid_counter = itertools.count(1)
_ROOT: str | None = None
_TEMPLATE: str | None = None


def det_uuid4() -> _uuid.UUID:
    return _uuid.UUID(int=(0x5EED << 100) | next(_uuid_counter), version=4)


def setup_determinism() -> None:
    """Own the nondeterminism that leaks into observations: uuid4 (study names, worker ids),
    logging noise, warnings."""
    optuna.logging.set_verbosity(optuna.logging.ERROR)
    warnings.simplefilter("ignore")
    import uuid

    uuid.uuid4 = det_uuid4  # optuna modules call uuid.uuid4() through the module attribute


def reset_uuid() -> None:
    global _uuid_counter
    _uuid_counter = itertools.count(1)


def root() -> str:
    global _ROOT
    if _ROOT is None or not os.path.isdir(_ROOT):
        _ROOT = tempfile.mkdtemp(prefix=f"vf{os.getpid()}_", dir=_SHM)
        import atexit

        atexit.register(cleanup_root, _ROOT, os.getpid())
    return _ROOT


def cleanup_root(path: str | None = None, pid: int | None = None) -> None:
    global _ROOT
    if pid is not None and pid != os.getpid():
        return
    p = path or _ROOT
    if p and os.path.isdir(p):
        shutil.rmtree(p, ignore_errors=True)
    if path is None:
        _ROOT = None


def sqlite_template() -> str:
    """A schema-initialised empty SQLite file, created once per run by a normal RDBStorage init
    (the real create_all + alembic stamping) and copied per history. Call in the parent before
    forking so workers share it."""
    global _TEMPLATE
    if _TEMPLATE is None or not os.path.exists(_TEMPLATE):
        path = os.path.join(root(), "template.db")
        s = RDBStorage(f"sqlite:///{path}")
        s.engine.dispose()
        _TEMPLATE = path
    return _TEMPLATE


def open_rdb(path: str, **kw: Any) -> RDBStorage:
    return RDBStorage(
        f"sqlite:///{path}",
        skip_compatibility_check=True,
        skip_table_creation=True,
        engine_kwargs={"connect_args": {"timeout": 2}},
        **kw,
    )


def new_sqlite_file() -> str:
    path = os.path.join(root(), f"db{os.getpid()}_{next(_counter)}.db")
    shutil.copyfile(sqlite_template(), path)
    return path


# ---------------------------------------------------------------------------------------------
# in-process gRPC
# ---------------------------------------------------------------------------------------------
import grpc  # noqa: E402


class _Abort(grpc.RpcError):
    def __init__(self, code: grpc.StatusCode, details: str) -> None:
        super().__init__(details)
        self._code = code
        self._details = details

    def code(self) -> grpc.StatusCode:
        return self._code

    def details(self) -> str:
        return self._details


class _Context:
    def abort(self, code: grpc.StatusCode, details: str) -> None:
        raise _Abort(code, details)


class InprocStub:
    """Stands where api_pb2_grpc.StorageServiceStub stands. Requests and replies really cross
    the protobuf wire encoding; the servicer methods are the real ones; an exception escaping a
    servicer method becomes StatusCode.UNKNOWN exactly as grpc's server does."""

    def __init__(self, servicer: Any) -> None:
        self._servicer = servicer
        self.calls = 0

    def __getattr__(self, name: str) -> Any:
        method = getattr(self._servicer, name)

        def call(request: Any, *a: Any, **k: Any) -> Any:
            self.calls += 1
            req = type(request).FromString(request.SerializeToString())
            try:
                rep = method(req, _Context())
            except _Abort:
                raise
            except Exception as e:  # grpc: "Exception calling application" -> UNKNOWN
                raise _Abort(grpc.StatusCode.UNKNOWN, f"Exception calling application: {e!r}")
            return type(rep).FromString(rep.SerializeToString())

        return call


def make_inproc_proxy(backend_storage: Any) -> Any:
    from optuna.storages._grpc import client as gclient
    from optuna.storages._grpc.auto_generated import api_pb2_grpc
    from optuna.storages._grpc.servicer import OptunaStorageProxyService

    servicer = OptunaStorageProxyService(backend_storage)
    stub = InprocStub(servicer)
    # the client module reaches grpc / api_pb2_grpc through _LazyImport objects that copy the real
    # module's namespace on first use: patch what the client actually looks at
    lazy_pb, lazy_grpc = gclient.api_pb2_grpc, gclient.grpc
    real_stub_cls = lazy_pb.StorageServiceStub
    real_chan = lazy_grpc.insecure_channel
    try:
        lazy_pb.StorageServiceStub = lambda channel: stub  # type: ignore
        lazy_grpc.insecure_channel = lambda *a, **k: None  # type: ignore
        with warnings.catch_warnings():
            warnings.simplefilter("ignore")
            proxy = gclient.GrpcStorageProxy(host="inproc", port=1)
    finally:
        lazy_pb.StorageServiceStub = real_stub_cls  # type: ignore
        lazy_grpc.insecure_channel = real_chan  # type: ignore
    assert proxy._stub is stub
    return proxy


# ---------------------------------------------------------------------------------------------
# list-backed journal backend (with snapshots), used for pure JournalStorage logic
# ---------------------------------------------------------------------------------------------
from optuna.storages.journal._base import BaseJournalBackend, BaseJournalSnapshot  # noqa: E402
import json  # noqa: E402


_LIST_SHARED: dict[int, dict] = {}


def _list_backend_of(key: int) -> "ListBackend":
    return ListBackend(_LIST_SHARED[key])


class ListBackend(BaseJournalBackend, BaseJournalSnapshot):
    """Boring journal backend: a Python list of JSON strings (records cross json like on a
    file) and one snapshot slot."""

    def __init__(self, shared: dict | None = None) -> None:
        self.shared = shared if shared is not None else {"logs": [], "snapshot": None}

    def __reduce__(self) -> tuple:
        # a pickled backend (storage handed to a child process) still names the SAME log
        _LIST_SHARED[id(self.shared)] = self.shared
        return (_list_backend_of, (id(self.shared),))

    def read_logs(self, log_number_from: int) -> list[dict[str, Any]]:
        return [json.loads(s) for s in self.shared["logs"][log_number_from:]]

    def append_logs(self, logs: list[dict[str, Any]]) -> None:
        for log in logs:
            self.shared["logs"].append(json.dumps(log, separators=(",", ":")))

    def save_snapshot(self, snapshot: bytes) -> None:
        self.shared["snapshot"] = snapshot

    def load_snapshot(self) -> bytes | None:
        return self.shared["snapshot"]


# ---------------------------------------------------------------------------------------------
class Env:
    """One freshly created backend configuration."""

    def __init__(self, config: str) -> None:
        self.config = config
        self._cleanup: list[Any] = []
        self.inner: Any = None  # the non-proxy storage (server side for grpc)
        self.raw_path: str | None = None
        inner_cfg = config[5:-1] if config.startswith("grpc(") else config
        self.inner = self._make_inner(inner_cfg)
        self.storage = make_inproc_proxy(self.inner) if config.startswith("grpc(") else self.inner

    # the factory used both for the storage under test and for "fresh openers"
    def _make_inner(self, cfg: str, reopen: bool = False) -> Any:
        if cfg == "mem":
            assert not reopen
            return InMemoryStorage()
        if cfg in ("rdb", "cached"):
            if not reopen:
                self.raw_path = new_sqlite_file()
                self._cleanup.append(lambda p=self.raw_path: os.path.exists(p) and os.unlink(p))
            rdb = open_rdb(self.raw_path)
            self._cleanup.append(rdb.engine.dispose)
            return _CachedStorage(rdb) if cfg == "cached" else rdb
        if cfg == "jlist":
            if not reopen:
                self._shared = {"logs": [], "snapshot": None}
            return JournalStorage(ListBackend(self._shared))
        if cfg in ("jfile-sym", "jfile-open"):
            if not reopen:
                self.raw_path = os.path.join(root(), f"j{os.getpid()}_{next(_counter)}.log")
                self._cleanup.append(lambda p=self.raw_path: os.path.exists(p) and os.unlink(p))
            lock = (JournalFileSymlinkLock if cfg == "jfile-sym" else JournalFileOpenLock)(self.raw_path)
            return JournalStorage(JournalFileBackend(self.raw_path, lock_obj=lock))
        if cfg == "jredis":
            import fakeredis
            from optuna.storages.journal import JournalRedisBackend

            if not reopen:
                self._redis_server = fakeredis.FakeServer()
            with warnings.catch_warnings():
                warnings.simplefilter("ignore")
                b = JournalRedisBackend("redis://localhost")
            b._redis = fakeredis.FakeStrictRedis(server=self._redis_server)
            return JournalStorage(b)
        raise ValueError(cfg)

    def reopen(self) -> Any:
        """A fresh opener of the same persistent backing (None for mem)."""
        inner_cfg = self.config[5:-1] if self.config.startswith("grpc(") else self.config
        if inner_cfg == "mem":
            return None
        return self._make_inner(inner_cfg, reopen=True)

    def digest(self) -> str:
        """Digest of *all* implementation state (DESIGN 2.1, seqx state caching)."""
        parts = []
        import sqlalchemy
        import sqlalchemy.orm

        skip = (sqlalchemy.engine.Engine, sqlalchemy.orm.scoped_session, InprocStub)
        try:
            import fakeredis

            skip = skip + (fakeredis.FakeStrictRedis, fakeredis.FakeServer)
        except Exception:
            pass
        sm = {self.raw_path: "<path>"} if self.raw_path else None
        parts.append(state_digest(self.storage, skip_types=skip, skip_attr=("_version_manager", "grpc_client"), str_map=sm))
        if self.storage is not self.inner:
            parts.append(state_digest(self.inner, skip_types=skip, skip_attr=("_version_manager",), str_map=sm))
        if self.raw_path and self.raw_path.endswith(".db"):
            parts.append(sqlite_dump_digest(self.raw_path))
        return "|".join(parts)

    def close(self) -> None:
        for fn in reversed(self._cleanup):
            try:
                fn()
            except Exception:
                pass
        self._cleanup = []
        if self.raw_path:
            for suffix in (".lock",):
                with contextlib.suppress(OSError):
                    os.unlink(self.raw_path + suffix)


_DT_COLS = {"datetime_start", "datetime_complete", "heartbeat"}


def sqlite_dump_digest(path: str) -> str:
    import hashlib

    h = hashlib.blake2b(digest_size=16)
    con = sqlite3.connect(path)
    try:
        tabs = [r[0] for r in con.execute("select name from sqlite_master where type='table' order by name")]
        for t in tabs:
            if t in ("alembic_version", "version_info"):
                continue
            cols = [r[1] for r in con.execute(f"pragma table_info({t})")]
            keep = [c for c in cols if c not in _DT_COLS]
            dts = [c for c in cols if c in _DT_COLS]
            sel = ", ".join(keep + [f"{c} is null" for c in dts])
            h.update(t.encode())
            for row in con.execute(f"select {sel} from {t} order by 1, 2"):
                h.update(repr(row).encode())
        # sqlite_sequence-like hidden state: next rowids are max+1 for these tables (no AUTOINCREMENT)
    finally:
        con.close()
    return h.hexdigest()
