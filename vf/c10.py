"""C10 - suggested values lie in the declared domain, are stable and are what gets stored.

seqx, bounded-exhaustive enumeration (never sampled) of the finite product
    distribution lattice x sampler x prior history x sampler seed x storage,
6 trials per case through study.optimize; every suggest_* call is checked against an independent
oracle of the DECLARED domain (exact decimal arithmetic on the arguments the objective passed):

  * float: low <= v <= high exactly (log floats: up to max(4, 1 + ceil|ln bound|) ulp beyond the
    bound, see ASSUMPTIONS), stepped: |k - round(k)| < 1e-8 for k = (v - low) / step (optuna's own
    tolerance) and round(k) <= floor((high - low) / step) computed exactly;
  * int: `type(v) is int`, low <= v <= high, (v - low) % step == 0;
  * categorical: v is one of the choices (identity, or equality with the identical type: True vs 1);
  * a second suggest_* with the same arguments in the same trial returns the identical value;
  * an enqueued value (in range or not) and a PartialFixedSampler value are returned verbatim;
  * live `trial.params[name]` agrees, and after the run `study.trials[i].params[name]` read back from
    the storage (and from a second opener of the same file for persistent backends) equals the
    value the objective received (==, same type; floats: exact equality).

Mutations of optuna this check must catch. M1-M7 were applied one at a time to a scratch copy and run with
`VF_REPO=<scratch> VF_CONFIGS=mem[,jfile-sym] ./check C10 --tier quick`; every one is reported with these violation keys (history
suffix omitted where all five histories fire):
  M1 optuna/_transform.py::_untransform_numerical_param, stepped floats: np.clip dropped
     (`param = float(np.round((t - low) / step) * step + low)`)
     -> "RandomSampler|Float step|above-high|*" (also QMC, NSGA-II, TPE start-up): low + k*step lands 1 ulp above
        high; NSGA-II's crossover retry loop then spins for ever, which the per-case alarm reports as well
  M2 optuna/samplers/_tpe/probability_distributions.py: the discrete truncated normal returns the raw sample
     (`ret[:, i] = np.clip(samples, d.low, d.high)`, rounding to the grid dropped)
     -> "TPESampler|Float step|off-grid|*", "TPESampler(multivariate)|Float step|off-grid|*"
  M3 optuna/_transform.py::_untransform_numerical_param, ints: `param = trans_param` (not rounded / clipped / int)
     -> "RandomSampler|Int step|off-grid|*", "RandomSampler|Int|live-trial.params-differs|*" (QMC, NSGA-II, TPE too)
  M4 optuna/trial/_trial.py::Trial._suggest: the `if name in trial.distributions` cache branch disabled
     -> "<every sampler>|<every class>|second-suggest-differs|*", "...|stored-value-differs[study.trials](mem)|*",
        "...|live-trial.params-differs|*"
  M5 optuna/trial/_trial.py::Trial._is_fixed_param: `return contained` (out-of-range enqueued value ignored)
     -> "<every sampler>|<every numeric class>|enqueued-value-not-returned|history=enqueued-out-of-range"
  M6 optuna/distributions.py::IntDistribution.to_external_repr returns float(...)
     -> "<every sampler>|Int*|stored-type-differs[study.trials](mem)|*", "...[second-opener](jfile-sym)|*"
  M7 optuna/trial/_trial.py::Trial._is_relative_param: `return True` (the _contains check on the relative value dropped)
     -> "QMCSampler|Float|above-high|history=different-range", "QMCSampler|Float step|off-grid|history=different-range",
        "QMCSampler|Int step|off-grid|history=different-range", "QMCSampler|Int log|above-high|history=different-range"
Not violations of C10, so silence is the right answer: np.floor instead of np.round in TPE's discrete truncated normal
with the clip kept (tried: silent; values stay members of the domain, only the distribution is skewed). By reading only,
not tried: dropping the second clip in _ParzenEstimator._untransform for ints (the truncation bounds already keep the
rounded value inside), removing NSGA-II's `_is_contained` retry loop (Trial._is_relative_param rejects the child and
samples independently).

Finding on the unmodified tree (kept reported, class "Categorical eq-ambiguous"): choices that are ==-equal but of
different types, e.g. suggest_categorical("x", (True, 1)): the objective receives 1, CategoricalDistribution.to_internal_repr
uses tuple.index() and records index 0, study.trials[i].params["x"] reads back True (every sampler, every storage; the
code comment in to_internal_repr accepts this). Minimal: RandomSampler(seed=0), no history, InMemoryStorage, trial 0.
"""
from __future__ import annotations

import json
import math
import os
import signal
from fractions import Fraction
from typing import Any

import optuna
from optuna.distributions import CategoricalDistribution, FloatDistribution, IntDistribution
from optuna.trial import TrialState, create_trial

from . import backends
from .backends import Env
from .core import Ctx, Part, main_wrapper, pmap

PID = "C10"
NAME = "x"
N_TRIALS = 6
N_HIST = 5
# "write-fails-once": same-range history, and the storage's set_trial_param raises once per trial (a
# transient storage error); the objective catches it and asks again
HISTORIES = ("empty", "same-range", "different-range", "far-range", "enqueued-in-range", "enqueued-out-of-range",
             "write-fails-once", "enqueued-after-history")
STEPS = ("0.1", "0.3", "0.25", "1", "7", "1e-3")
INT_STEPS = (1, 2, 3, 7)
MAX_FINITE = 8  # Grid / BruteForce only where the domain has <= 8 points
# choice pool: None, bool, int, float, str; (True, 1) and (False, 0) are ==-equal with different types
CHOICE_POOL_QUICK = (None, True, 1, 1.5, "a")
CHOICE_POOL_THOROUGH = (None, True, False, 1, 0, 1.5, "a", "")

MEM_SAMPLERS = ("Random", "TPE", "TPE-mv", "QMC", "NSGAII", "NSGAII-mp0", "NSGAII-blx", "PartialFixed",
                "BruteForce", "Grid")
STORAGE_SAMPLERS = ("Random", "TPE-mv", "NSGAII-mp0", "PartialFixed", "BruteForce", "Grid")
GP_SUBSET = [
    ("F", "-0.003", "0.001", None, False),
    ("F", "-7000", "7000", None, False),
    ("F", "0", "1", "0.3", False),
    ("F", "-1", "1", "0.25", False),
    ("F", "1", "1.0000001", None, True),
    ("F", "1e-3", "1e3", None, True),
    ("I", -3, 7, 3, False),
    ("I", 0, 1, 1, False),
    ("I", 1, 30, 1, True),
    ("C", (None, True, "a")),
]
GP_HISTORIES = ("empty", "different-range", "enqueued-out-of-range")


class _SuggestRaised(Exception):
    pass


class _CaseTimeout(BaseException):
    pass


_MISSING = object()


# ---------------------------------------------------------------------------------------------
# the lattice
# ---------------------------------------------------------------------------------------------
QUICK_ME = ((1, -3), (1, -1), (3, -1), (1, 0), (3, 0), (1, 3))  # 1e-3, 0.1, 0.3, 1, 3, 1e3
THOROUGH_ME = tuple((m, e) for m in (1, 3, 7) for e in (-3, -1, 0, 1, 3))


def _vals(me: tuple) -> list[str]:
    """Decimal literals +-m*10^e and 0, sorted by value (strings: the declared, exact numbers)."""
    out = {"0"}
    for m, e in me:
        out.add(f"{m}e{e}")
        out.add(f"-{m}e{e}")
    return sorted(out, key=lambda s: Fraction(s))


def lattice(tier: str) -> list[tuple]:
    if tier == "quick":
        vals, pool = _vals(QUICK_ME), CHOICE_POOL_QUICK
    else:
        vals, pool = _vals(THOROUGH_ME), CHOICE_POOL_THOROUGH
    specs: list[tuple] = []
    # floats, linear: no step and every step, low < high and low == high
    for i, lo in enumerate(vals):
        for hi in vals[i:]:
            specs.append(("F", lo, hi, None, False))
            for st in STEPS:
                specs.append(("F", lo, hi, st, False))
    # floats, log (low > 0)
    pos = [v for v in vals if Fraction(v) > 0]
    for i, lo in enumerate(pos):
        for hi in pos[i:]:
            specs.append(("F", lo, hi, None, True))
    specs += [("F", "1", "1.000000001", None, True), ("F", "1", "1.0000001", None, True),
              ("F", "0.999999999", "1", None, True)]
    # tiny / huge magnitudes and ranges far narrower than their magnitude (the statement's "tiny/huge
    # ranges"): absolute margins, epsilons and overflow-prone arithmetic show here
    specs += [("F", "1e-20", "2e-20", None, False), ("F", "0", "1e-300", None, False), ("F", "-3e-17", "-1e-17", None, False),
              ("F", "1e300", "1.5e300", None, False), ("F", "-1e150", "1e150", None, False),
              ("F", "1000", "1000.0000000001", None, False), ("F", "-1e-9", "1e-9", "5e-10", False),
              ("F", "1e-300", "1e-299", None, True), ("F", "1e-20", "2e-20", None, True), ("F", "1e299", "1e300", None, True),
              ("I", -10**15, 10**15, 1, False), ("I", 10**15, 10**15 + 3, 1, False), ("I", 10**12, 10**15, 1, True)]
    # ints
    ivals = sorted({int(Fraction(v)) for v in vals if Fraction(v).denominator == 1})
    for i, lo in enumerate(ivals):
        for hi in ivals[i:]:
            for st in INT_STEPS:
                specs.append(("I", lo, hi, st, False))
            if lo >= 1:
                specs.append(("I", lo, hi, 1, True))
    # categoricals: every ordered tuple of 1..3 distinct pool members
    def tuples(prefix: tuple, depth: int) -> None:
        if prefix:
            specs.append(("C", prefix))
        if depth == 3:
            return
        for c in pool:
            if not any(c is p for p in prefix):
                tuples(prefix + (c,), depth + 1)

    tuples((), 0)
    return specs


# ---------------------------------------------------------------------------------------------
# independent model of the declared domain
# ---------------------------------------------------------------------------------------------
class Dom:
    """The declared domain of one spec, from exact decimal arithmetic on the declared numbers."""

    def __init__(self, spec: tuple) -> None:
        self.spec = spec
        self.kind = spec[0]
        if self.kind == "F":
            _, lo, hi, st, log = spec
            self.low, self.high = float(lo), float(hi)
            self.step = None if st is None else float(st)
            self.log = log
            if st is None:
                self.kmax = None
                self.top = self.high
                self.single = self.low == self.high
                self.npoints = 1 if self.single else None
            else:
                L, H, S = Fraction(lo), Fraction(hi), Fraction(st)
                self.kmax = (H - L) // S
                self.top = float(L + self.kmax * S)  # the largest grid point <= high
                self.single = self.kmax == 0
                self.npoints = int(self.kmax) + 1
                self.adjusted = (H - L) % S != 0
        elif self.kind == "I":
            _, lo, hi, st, log = spec
            self.low, self.high, self.step, self.log = lo, hi, st, log
            self.kmax = (hi - lo) // st
            self.top = lo + self.kmax * st
            self.single = self.kmax == 0
            self.npoints = self.kmax + 1
            self.adjusted = (hi - lo) % st != 0
        else:
            self.choices = spec[1]
            self.single = len(self.choices) == 1
            self.npoints = len(self.choices)
            self.ambiguous = any(a == b and type(a) is not type(b)
                                 for i, a in enumerate(self.choices) for b in self.choices[i + 1:]
                                 if a is not None and b is not None)

    # -- classes --------------------------------------------------------------------------------
    def cls(self) -> str:
        if self.kind == "C":
            base = "Categorical eq-ambiguous" if self.ambiguous else "Categorical"
        elif self.kind == "F":
            base = "Float log" if self.log else ("Float step" if self.step is not None else "Float")
        else:
            base = "Int log" if self.log else ("Int step" if self.step != 1 else "Int")
        return base + (" single" if self.single else "")

    def finite(self) -> bool:
        return self.npoints is not None and self.npoints <= MAX_FINITE

    def points(self) -> list:
        """All members of a finite domain, as a user would type them (exact decimals)."""
        if self.kind == "C":
            return list(self.choices)
        if self.kind == "I":
            return [self.low + k * self.step for k in range(self.npoints)]
        if self.step is None:
            return [self.low]
        L, S = Fraction(self.spec[1]), Fraction(self.spec[3])
        return [float(L + k * S) for k in range(self.npoints)]

    # -- suggest --------------------------------------------------------------------------------
    def suggest(self, trial: Any) -> Any:
        if self.kind == "F":
            return trial.suggest_float(NAME, self.low, self.high, step=self.step, log=self.log)
        if self.kind == "I":
            return trial.suggest_int(NAME, self.low, self.high, step=self.step, log=self.log)
        return trial.suggest_categorical(NAME, self.choices)

    def dist(self) -> Any:
        if self.kind == "F":
            return FloatDistribution(self.low, self.high, log=self.log, step=self.step)
        if self.kind == "I":
            return IntDistribution(self.low, self.high, log=self.log, step=self.step)
        return CategoricalDistribution(self.choices)

    # -- the oracle -----------------------------------------------------------------------------
    def member(self, v: Any) -> str | None:
        """None if v is a member of the declared domain, else the clause it breaks."""
        if self.kind == "C":
            for c in self.choices:
                if c is v or (type(c) is type(v) and c == v):
                    return None
            return "not-a-choice"
        if self.kind == "I":
            if type(v) is not int:
                return f"not-int({type(v).__name__})"
            if v < self.low:
                return "below-low"
            if v > self.high:
                return "above-high"
            if (v - self.low) % self.step != 0 or v > self.top:
                return "off-grid"
            return None
        if not isinstance(v, float):
            return f"not-float({type(v).__name__})"
        if v != v or v in (math.inf, -math.inf):
            return "not-finite"
        if self.log:
            if v < _ulps(self.low, -_log_tol(self.low)):
                return "below-low"
            if v > _ulps(self.high, _log_tol(self.high)):
                return "above-high"
            return None
        if v < self.low:
            return "below-low"
        if v > self.high:
            return "above-high"
        if self.step is not None:
            k = (v - self.low) / self.step
            if not abs(k - round(k)) < 1e-8 or round(k) > self.kmax:
                return "off-grid"
        return None

    def same(self, a: Any, b: Any) -> bool:
        """a and b are the same parameter value: ==, same type (floats: any float type, exact ==)."""
        if self.kind == "F":
            return isinstance(a, float) and isinstance(b, float) and a == b
        if a is None or b is None:
            return a is b
        return type(a) is type(b) and a == b


def _log_tol(bound: float) -> int:
    return max(4, 1 + math.ceil(abs(math.log(bound))))


def _ulps(x: float, n: int) -> float:
    for _ in range(abs(n)):
        x = math.nextafter(x, math.inf if n > 0 else -math.inf)
    return x


# ---------------------------------------------------------------------------------------------
# histories
# ---------------------------------------------------------------------------------------------
def _grid_values(d: Any, n: int = N_HIST) -> list:
    """n values of an optuna numeric distribution object: both ends and interior points."""
    if d.single():
        return [d.low] * n
    if isinstance(d, IntDistribution):
        k = (d.high - d.low) // d.step
        return [d.low + j * d.step for j in (0, k, k // 2, k // 4, (3 * k) // 4)][:n]
    if d.step is not None:
        k = int(round((d.high - d.low) / d.step))
        vals = [d.low + j * d.step for j in (0, k, k // 2, k // 4, (3 * k) // 4)]
        vals[1] = d.high
    elif d.log:
        r = d.high / d.low
        vals = [d.low, d.high] + [d.low * r ** f for f in (0.5, 0.25, 0.75)]
    else:
        w = d.high - d.low
        vals = [d.low, d.high] + [d.low + w * f for f in (0.5, 0.25, 0.75)]
    out = []
    for v in vals[:n]:
        v = min(max(float(v), d.low), d.high)
        out.append(v if d._contains(v) else d.low)
    return out


def shifted_dist(dom: Dom, far: bool = False) -> Any:
    """A distribution of the same kind for the same name with a DIFFERENT range: shifted up by half
    the width (log: multiplied by sqrt(high/low)); the shift of a stepped domain need not be a
    multiple of the step, so the old observations may lie off the new grid. far=True: shifted by a
    thousand widths, so the old observations lie hundreds of kernel sigmas outside the new range."""
    if dom.kind == "I":
        sh = max(1, (dom.top - dom.low) // 2) if not far else max(1000, (dom.top - dom.low) * 1000)
        return IntDistribution(dom.low + sh, dom.top + sh, log=dom.log, step=dom.step)
    if dom.log:
        f = math.sqrt(dom.high / dom.low) if dom.high > dom.low else 2.0
        if dom.low * f == dom.low:
            f = 2.0
        if far:
            f = math.exp(min(400 * math.log(f), math.log(1e60)))
        if dom.high * f > 1e305:
            f = 1.0 / f  # stay finite: shift down instead of up
        return FloatDistribution(dom.low * f, dom.high * f, log=True)
    w = dom.top - dom.low
    sh = w / 2 if w > 0 else max(abs(dom.low), 1.0) / 2
    if far:
        sh *= 2000
    if not math.isfinite(dom.top + sh) or abs(dom.top + sh) > 1e305:
        sh = -sh
    return FloatDistribution(dom.low + sh, dom.top + sh, step=dom.step)


def enqueue_value(dom: Dom, inside: bool) -> Any:
    if dom.kind == "C":
        return dom.choices[len(dom.choices) // 2]
    if dom.kind == "I":
        if inside:
            return dom.low + (dom.kmax // 2) * dom.step
        return dom.top + dom.step + (1 if dom.step > 1 else 0)  # beyond high and off the grid
    if inside:
        if dom.single:
            return dom.low
        if dom.step is not None:
            return float(Fraction(dom.spec[1]) + (dom.kmax // 2) * Fraction(dom.spec[3]))
        if dom.log:
            return min(max(dom.low * (dom.high / dom.low) ** 0.375, dom.low), dom.high)
        return min(max(dom.low + (dom.high - dom.low) * 0.375, dom.low), dom.high)
    if dom.log:
        return dom.high * 2.0
    if dom.step is not None:
        return dom.top + 1.5 * dom.step  # beyond high and off the grid
    w = dom.high - dom.low
    return dom.high + (w / 2 if w > 0 else max(abs(dom.high), 1.0) / 2)


def fixed_value(dom: Dom) -> Any:
    """The in-range value given to PartialFixedSampler: the top of the domain."""
    if dom.kind == "C":
        return dom.choices[-1]
    return dom.top


def apply_history(study: Any, dom: Dom, hist: str) -> Any:
    """Returns the enqueued value (or _MISSING: None is a legal categorical choice)."""
    if hist in ("same-range", "different-range", "far-range", "write-fails-once"):
        if dom.kind == "C":
            d = dom.dist()
            vals = [dom.choices[i % len(dom.choices)] for i in range(N_HIST)]
        else:
            d = dom.dist() if hist in ("same-range", "write-fails-once") else shifted_dist(dom, far=(hist == "far-range"))
            vals = _grid_values(d)
        for i, v in enumerate(vals):
            study.add_trial(create_trial(state=TrialState.COMPLETE, params={NAME: v}, distributions={NAME: d},
                                         value=float((i * 3) % N_HIST)))
        return _MISSING
    if hist == "enqueued-after-history":
        # finished trials first (so that relative samplers have a joint space that contains the
        # name), then a queued value: the queued value must still win
        apply_history(study, dom, "same-range")
        v = enqueue_value(dom, True)
        study.enqueue_trial({NAME: v})
        return v
    if hist.startswith("enqueued"):
        v = enqueue_value(dom, hist == "enqueued-in-range")
        study.enqueue_trial({NAME: v})
        return v
    return _MISSING


# ---------------------------------------------------------------------------------------------
# samplers
# ---------------------------------------------------------------------------------------------
def make_sampler(name: str, seed: int, dom: Dom) -> Any:
    s = optuna.samplers
    if name == "Random":
        return s.RandomSampler(seed=seed)
    if name == "TPE":
        return s.TPESampler(seed=seed, n_startup_trials=2)
    if name == "TPE-mv":
        return s.TPESampler(seed=seed, n_startup_trials=2, multivariate=True)
    if name == "QMC":
        return s.QMCSampler(seed=seed)
    if name == "NSGAII":
        return s.NSGAIISampler(seed=seed, population_size=2)
    if name == "NSGAII-mp0":  # one parameter: the default mutation_prob 1/n_params = 1 never lets a child through
        return s.NSGAIISampler(seed=seed, population_size=2, mutation_prob=0.0)
    if name == "NSGAII-blx":
        from optuna.samplers.nsgaii import BLXAlphaCrossover

        return s.NSGAIISampler(seed=seed, population_size=2, mutation_prob=0.0, crossover=BLXAlphaCrossover())
    if name == "PartialFixed":
        return s.PartialFixedSampler({NAME: fixed_value(dom)}, s.RandomSampler(seed=seed))
    if name == "BruteForce":
        # BruteForceSampler rejects FloatDistribution(step=None) by contract, single-point or not
        ok = dom.finite() and not (dom.kind == "F" and dom.step is None)
        return s.BruteForceSampler(seed=seed) if ok else None
    if name == "Grid":
        return s.GridSampler({NAME: dom.points()}, seed=seed) if dom.finite() else None
    if name == "GP":
        return s.GPSampler(seed=seed, n_startup_trials=2)
    raise ValueError(name)


def sampler_class(name: str) -> str:
    return {"Random": "RandomSampler", "TPE": "TPESampler", "TPE-mv": "TPESampler(multivariate)", "QMC": "QMCSampler",
            "NSGAII": "NSGAIISampler", "NSGAII-mp0": "NSGAIISampler(mutation_prob=0)",
            "NSGAII-blx": "NSGAIISampler(BLXAlpha)", "PartialFixed": "PartialFixedSampler",
            "BruteForce": "BruteForceSampler", "Grid": "GridSampler", "GP": "GPSampler"}[name]


# suggest_* raising is outside C10's text (no value was returned). These are the ones the unmodified
# tree produces on the lattice; anything else makes the run end with exit 3 (never a silent pass).
EXPECTED_RAISES = {
    # BruteForceSampler documents that it cannot cope with a range that changes inside a study
    # (ValueError "search_space mismatch" / "param_name mismatch" from its tree, in suggest or in after_trial)
    ("BruteForce", "different-range", "ValueError", ""),
    ("BruteForce", "far-range", "ValueError", ""),
    # BruteForceSampler.after_trial rebuilds the trial with create_trial(), which validates the out-of-range
    # enqueued value that Trial._suggest accepted: ValueError out of study.optimize (side observation, not C10)
    ("BruteForce", "enqueued-out-of-range", "ValueError", "The value "),
}
# C09's finding a44f671 (fixed in the working tree, present on the baseline): NSGA-II caches the parents' storage
# trial ids and uses them as list indexes, so sample_relative raises IndexError wherever trial ids are not
# 0..n-1 (here: the SQLite file shared by the studies of one distribution). It belongs to C09, not to C10.
NSGA_ID_BUG = ("IndexError", "KeyError")


def _expected_raise(sampler: str, hist: str, exc: BaseException) -> bool:
    if sampler.startswith("NSGAII") and type(exc).__name__ in NSGA_ID_BUG:
        return True
    return any(sampler == s and hist == h and type(exc).__name__ == t and str(exc).startswith(m)
               for s, h, t, m in EXPECTED_RAISES)


# ---------------------------------------------------------------------------------------------
# one case
# ---------------------------------------------------------------------------------------------
_study_counter = [0]


def run_case(spec: tuple, sampler_name: str, hist: str, seed: int, env: Env, part: Part,
             count_distinct: bool = True, verbose: bool = False) -> None:
    dom = Dom(spec)
    sampler = make_sampler(sampler_name, seed, dom)
    if sampler is None:
        return
    cfg = env.config
    dcls = dom.cls()
    scls = sampler_class(sampler_name)
    base = {"distribution": spec, "sampler": sampler_name, "seed": seed, "history": hist, "storage": cfg}

    def fail(clause: str, idx: int, value: Any, **detail: Any) -> None:
        stor = f"({cfg})" if clause.startswith("stored") else ""
        part.violation(f"{scls}|{dcls}|{clause}{stor}|history={hist}",
                       dict(base, clause=clause, trial_index=idx, value=repr(value), **detail))

    # -- instrument the sampler: where did the value come from? -----------------------------------
    probe = {"ind": 0, "rel": None}
    orig_ind, orig_rel = sampler.sample_independent, sampler.sample_relative

    def ind(study: Any, trial: Any, name: str, dist: Any) -> Any:
        probe["ind"] += 1
        return orig_ind(study, trial, name, dist)

    def rel(study: Any, trial: Any, space: Any) -> Any:
        r = orig_rel(study, trial, space)
        probe["rel"] = r
        return r

    sampler.sample_independent = ind  # type: ignore
    sampler.sample_relative = rel  # type: ignore

    _study_counter[0] += 1
    sname = f"c10_{_study_counter[0]}"
    study = optuna.create_study(storage=env.storage, study_name=sname, sampler=sampler)
    enq = apply_history(study, dom, hist)
    n_before = len(study.get_trials(deepcopy=False, states=(TrialState.COMPLETE,)))
    fixed = fixed_value(dom) if sampler_name == "PartialFixed" else None
    records: list[dict] = []

    class _Transient(RuntimeError):
        pass

    if hist == "write-fails-once":
        st_obj = study._storage
        orig_set_param = st_obj.set_trial_param
        failed_for: set = set()

        def flaky(trial_id: int, *a: Any, **k: Any) -> Any:
            if trial_id not in failed_for:
                failed_for.add(trial_id)
                raise _Transient("injected transient storage error")
            return orig_set_param(trial_id, *a, **k)

        st_obj.set_trial_param = flaky  # type: ignore

    def objective(trial: Any) -> float:
        rec: dict = {"number": trial.number}
        records.append(rec)
        probe["rel"] = None
        i0 = probe["ind"]
        try:
            try:
                v = dom.suggest(trial)
            except _Transient:
                v = dom.suggest(trial)  # the objective retries after the transient error
        except Exception as e:
            rec["exc"] = e
            raise _SuggestRaised() from e
        rec["v"] = v
        rec["independent"] = probe["ind"] > i0
        rec["rel"] = probe["rel"]
        try:
            rec["v2"] = dom.suggest(trial)
            rec["live"] = trial.params.get(NAME, _MISSING)
        except Exception as e:
            rec["exc"] = e
            raise _SuggestRaised() from e
        if dom.kind == "C":
            return float(next(i for i, c in enumerate(dom.choices) if c is v or (type(c) is type(v) and c == v)) if
                         dom.member(v) is None else 0)
        try:
            f = float(v)
        except Exception:
            return 0.0
        return f if math.isfinite(f) else 0.0

    try:
        study.optimize(objective, n_trials=N_TRIALS, catch=(_SuggestRaised,))
    except Exception as e:  # raised outside the objective (sampler hooks): no value was returned either
        tag = f"{sampler_name}|{type(e).__name__}|history={hist}"
        if _expected_raise(sampler_name, hist, e):
            part.add(f"optimize_raised[{tag}]")
        else:
            part.add("suggest_raised_unexpected")
            part.note(f"UNEXPECTED exception out of optimize {tag} {dcls}: {str(e)[:160]} {base}")

    if hist == "write-fails-once":
        del st_obj.set_trial_param  # back to the class's method (the storage object is shared between cases)

    # -- check every suggested value ----------------------------------------------------------------
    n_rel = 0
    for idx, rec in enumerate(records):
        part.add("trials_run")
        if "exc" in rec:
            e = rec["exc"]
            tag = f"{sampler_name}|{type(e).__name__}|history={hist}"
            if _expected_raise(sampler_name, hist, e):
                part.add(f"suggest_raised[{tag}]")
            else:
                part.add("suggest_raised_unexpected")
                part.note(f"UNEXPECTED suggest_* exception {tag} {dcls}: {str(e)[:160]} {base}")
            continue
        v = rec["v"]
        part.add("evaluations")
        is_enq = enq is not _MISSING and idx == 0
        if is_enq:
            # enqueued / fixed values win over the sampler and are returned verbatim, in range or not
            if not (v is enq or (type(v) is type(enq) and v == enq)):
                fail("enqueued-value-not-returned", idx, v, enqueued=repr(enq))
            part.add("enqueued_values")
        elif fixed is not None and not dom.single:
            if not (v is fixed or (type(v) is type(fixed) and v == fixed)):
                fail("fixed-value-not-returned", idx, v, fixed=repr(fixed))
        if not (is_enq and hist == "enqueued-out-of-range"):
            why = dom.member(v)
            if why is not None:
                fail(why, idx, v)
        else:
            part.add("out_of_range_enqueued_values")
        if type(v).__module__ == "numpy":
            part.add("numpy_float_values_returned")
        # stable inside the trial
        v2 = rec["v2"]
        if not (v2 is v or (type(v2) is type(v) and v2 == v)):
            fail("second-suggest-differs", idx, v, second=repr(v2))
        live = rec["live"]
        if live is _MISSING or not (live == v) or (dom.kind == "C" and not dom.same(live, v)):
            fail("live-trial.params-differs", idx, v, live=repr(live))
        # provenance
        came_rel = (not rec["independent"] and rec["rel"] is not None and NAME in rec["rel"] and not is_enq
                    and not dom.single)
        if came_rel:
            n_rel += 1
            rv = rec["rel"][NAME]
            if not (rv == v):
                fail("relative-value-not-returned", idx, v, relative=repr(rv))
        rec["came_rel"] = came_rel
    if n_rel:
        part.add("relative_mode_values", n_rel)
        part.add(f"rel[{sampler_name}]", n_rel)

    # -- what was recorded ----------------------------------------------------------------------------
    def check_stored(trials: list, how: str) -> None:
        by_number = {t.number: t for t in trials}
        for idx, rec in enumerate(records):
            if "exc" in rec:
                continue
            t = by_number.get(rec["number"])
            if t is None:
                fail(f"stored-trial-missing[{how}]", idx, rec["v"])
                continue
            sv = t.params.get(NAME, _MISSING)
            if sv is _MISSING and t.state != TrialState.COMPLETE:
                continue
            part.add("stored_values_compared")
            if sv is _MISSING or not dom.same(sv, rec["v"]):
                kind = "type" if (sv is not _MISSING and sv == rec["v"]) else "value"
                if kind == "type" and getattr(dom, "ambiguous", False):
                    # choices that are ==-equal but of different types, e.g. (True, 1): the objective
                    # receives 1, the study records True. The statement says the recorded value EQUALS
                    # the received one, and True == 1 holds; demanding identical types here would be
                    # more than the property states (and the code documents this choice). Counted only.
                    part.add("obs_eq_ambiguous_choice_recorded_as_equal_value_of_other_type")
                    continue
                fail(f"stored-{kind}-differs[{how}]", idx, rec["v"], stored=repr(sv))

    check_stored(study.get_trials(deepcopy=True), "study.trials")
    other = env.reopen()
    if other is not None:
        try:
            check_stored(optuna.load_study(study_name=sname, storage=other).get_trials(deepcopy=False), "second-opener")
        finally:
            eng = getattr(getattr(other, "_backend", other), "engine", None)
            if eng is not None:
                eng.dispose()

    part.add(f"cases[{sampler_name}]")
    part.add(f"cases[history={hist}]")
    part.add(f"cases[storage={cfg}]")
    if count_distinct and not dom.single:
        part.add("distinct_nontrivial")
    if verbose:
        for idx, rec in enumerate(records):
            print(idx, {k: (repr(x) if k != "rel" else x) for k, x in rec.items()})
    part.sample({"distribution": spec, "class": dcls, "sampler": sampler_name, "history": hist, "storage": cfg,
                 "values": [repr(r.get("v", "<raised>")) for r in records],
                 "relative": [bool(r.get("came_rel")) for r in records]}, cap=1)


def _alarm(signum: int, frame: Any) -> None:
    raise _CaseTimeout()


def guarded_case(spec: tuple, sampler_name: str, hist: str, seed: int, env: Env, part: Part, count: bool,
                 limit: int) -> bool:
    """False if the case did not finish (a sampler spinning forever, e.g. NSGA-II's retry loop)."""
    old = signal.signal(signal.SIGALRM, _alarm)
    signal.alarm(limit)
    try:
        run_case(spec, sampler_name, hist, seed, env, part, count)
        return True
    except _CaseTimeout:
        part.add("suggest_raised_unexpected")
        part.add(f"case_timeouts[{sampler_name}]")
        part.note(f"UNEXPECTED case did not finish within {limit}s: {spec} {sampler_name} {hist} seed={seed} {env.config}")
        return False
    finally:
        signal.alarm(0)
        signal.signal(signal.SIGALRM, old)


def histories_for(dom: Dom) -> tuple:
    if dom.kind == "C":
        # changed choices are rejected by contract, a value that is not a choice cannot be stored
        return ("empty", "same-range", "enqueued-in-range", "write-fails-once", "enqueued-after-history")
    return HISTORIES


def task_fn(task: tuple) -> dict:
    cfg, specs, samplers, seeds, hists = task
    backends.setup_determinism()
    part = Part()
    if "GP" in samplers:
        try:
            import torch

            torch.set_num_threads(1)
        except Exception:
            pass
    hung: set = set()  # a sampler that hung once is not run again in this task (the run ends with exit 3)
    for spec in specs:
        dom = Dom(spec)
        # one SQLite file per distribution (creating one costs more than a case); every other backend is created
        # afresh for every case, as a user's single-study storage would be
        shared = Env(cfg) if cfg == "cached" else None
        try:
            for hist in histories_for(dom):
                if hists is not None and hist not in hists:
                    continue
                for sname in samplers:
                    for seed in seeds:
                        if sname in hung:
                            part.add(f"cases_skipped_after_timeout[{sname}]")
                            continue
                        env = shared or Env(cfg)
                        try:
                            if not guarded_case(spec, sname, hist, seed, env, part, cfg == "mem" and seed == seeds[0],
                                                900 if sname == "GP" else 30):
                                hung.add(sname)
                        finally:
                            if shared is None:
                                env.close()
        finally:
            if shared is not None:
                shared.close()
        part.add(f"dists[{cfg}][{dom.cls()}]")
        if cfg == "mem" and getattr(dom, "adjusted", False):
            part.add("dists_with_high_adjusted_to_the_grid")
    return part.out()


# ---------------------------------------------------------------------------------------------
def storage_subset(specs: list[tuple], per_class: int) -> list[tuple]:
    """A fixed subset: `per_class` evenly spaced members of every distribution class."""
    by: dict[str, list] = {}
    for s in specs:
        by.setdefault(Dom(s).cls(), []).append(s)
    out = []
    for cls in sorted(by):
        lst = by[cls]
        n = min(per_class, len(lst))
        idx = sorted({(i * (len(lst) - 1)) // max(1, n - 1) for i in range(n)})
        out += [lst[i] for i in idx]
    return out


def chunks(lst: list, n: int) -> list[list]:
    n = max(1, min(n, len(lst)))
    return [lst[i::n] for i in range(n)]


def plan(tier: str) -> tuple[list[tuple], dict]:
    specs = lattice(tier)
    seeds = (0,)
    tasks: list[tuple] = []
    for ch in chunks(specs, 224 if tier == "quick" else 288):
        tasks.append(("mem", ch, MEM_SAMPLERS, seeds, None))
    sub = storage_subset(specs, 4 if tier == "quick" else 14)
    sub_slow = storage_subset(specs, 1 if tier == "quick" else 10)
    for cfg, lst, n in (("jfile-sym", sub, 12), ("grpc(mem)", sub, 12), ("cached", sub_slow, 16 if tier == "quick" else 48)):
        for ch in chunks(lst, n if tier == "quick" else 2 * n):
            tasks.append((cfg, ch, STORAGE_SAMPLERS, (0,), None))
    if tier == "thorough":
        for spec in GP_SUBSET:
            for h in GP_HISTORIES:
                if h in histories_for(Dom(spec)):
                    tasks.append(("mem", [spec], ("GP",), (0,), (h,)))
    info = {"distributions": len(specs), "storage_subset": len(sub), "storage_subset_sqlite": len(sub_slow),
            "seeds": list(seeds)}
    return tasks, info


def replay_file(path: str) -> int:
    backends.setup_determinism()
    backends.sqlite_template()
    rep = json.load(open(path))

    def tup(x: Any) -> Any:
        return tuple(tup(y) for y in x) if isinstance(x, list) else x

    part = Part()
    env = Env(rep["storage"])
    try:
        run_case(tup(rep["distribution"]), rep["sampler"], rep["history"], rep["seed"], env, part, verbose=True)
    finally:
        env.close()
    for k, v in part.viol.items():
        print("VIOLATION", k, {a: b for a, b in v.items() if not a.startswith("_")})
    backends.cleanup_root()
    return 1 if part.viol else 0


def run(tier: str, replay: str | None = None) -> int:
    backends.setup_determinism()
    if replay is not None:
        return replay_file(replay)
    ctx = Ctx(PID, tier, "exploration")
    backends.sqlite_template()
    tasks, info = plan(tier)
    only = os.environ.get("VF_CONFIGS")
    if only:
        tasks = [t for t in tasks if t[0] in only.split(",")]
    pmap(ctx, task_fn, tasks)
    ctx.cov.update({f"lattice_{k}": v for k, v in info.items()})
    ctx.assumptions += [
        "nothing is claimed off the lattice: low/high in {0, +-1e-3, +-0.1, +-0.3, +-1, +-3, +-1e3} (quick) / {+-m*10^e} u {0} with "
        "m in {1,3,7} e in {-3,-1,0,1,3} (thorough), float steps {0.1,0.3,0.25,1,7,1e-3}, log floats over the positive "
        "values plus [1,1+1e-9], [1,1.0000001], [1-1e-9,1]; ints over the integral lattice values with steps 1/2/3/7 and "
        "log; categoricals = every ordered tuple of 1..3 distinct members of (None,True,1,1.5,'a') (quick) / "
        "(None,True,False,1,0,1.5,'a','') (thorough); one parameter per study; 6 trials per case; sampler seed 0",
        "log-scaled floats: 'a few ulps' is taken as max(4, 1+ceil|ln bound|) ulp beyond the bound (exp(log(b)) alone is 5 ulp "
        "off for b=3000, which QMC's first Sobol point and TPE's truncated normal at the bound return); all other domains exact",
        "histories are built with study.add_trial (values at both ends and interior grid points) / study.enqueue_trial; the "
        "different-range history is the same kind of distribution shifted up by half its width (log: times sqrt(high/low)); "
        "categoricals have no different-range / out-of-range history (rejected by contract)",
        "the default NSGAIISampler never passes a child through with a single parameter (mutation_prob = 1/n_params = 1): relative "
        "mode of NSGA-II is exercised with mutation_prob=0 (uniform and BLX-alpha crossover)",
        "suggest_* raising is outside the statement and only counted: BruteForceSampler raises ValueError on a changed range (as "
        "documented) and in after_trial on an out-of-range enqueued value; NSGA-II's IndexError/KeyError from trial ids used as "
        "list indexes is C09's finding a44f671 (baseline tree only, SQLite file shared by several studies); any other exception "
        "or a case that does not finish in 30 s ends the run with exit 3 (exit 1 if violations were found as well)",
        "every case runs in a freshly created storage (SQLite: one file per distribution, one study per case)",
        "a numpy float (float subclass) returned by suggest_float is accepted and counted (BruteForceSampler); suggest_int must "
        "return exactly int",
        "non-memory storages (journal file, _CachedStorage(RDB/SQLite), in-process gRPC proxy over memory) on a fixed evenly "
        "spaced subset of every distribution class with samplers Random/TPE-mv/NSGA-II/PartialFixed/BruteForce/Grid; read back "
        "through study.trials and through a second opener of the same file",
        "GPSampler only in the thorough tier on 10 distributions x {empty, different-range, enqueued-out-of-range}",
    ]
    backends.cleanup_root()
    rc = ctx.finish(
        exhaustive=True,
        rule="full product distribution lattice x sampler {Random, TPE, TPE multivariate, QMC, NSGA-II (default, mutation_prob=0, "
             "BLX-alpha), PartialFixed(Random), BruteForce and Grid where the domain has <= 8 points; GP thorough subset} x history "
             "{empty, 5 same-range, 5 different-range, enqueued in range, enqueued out of range} x seed on InMemoryStorage; the fixed "
             "per-class subset x 6 samplers x 5 histories on jfile-sym, cached(SQLite) and grpc(mem); distinct_nontrivial = "
             "(distribution, sampler, history) triples with more than one point in the domain",
    )
    bad = ctx.cov.get("suggest_raised_unexpected", 0)
    if bad:
        import sys

        print(f"INTERNAL-ERROR: {bad} suggest_* calls raised an exception the environment model does not expect "
              f"(see notes in evidence/{PID}.json): {ctx.notes[:3]}", file=sys.stderr)
        return rc or 3  # violations found elsewhere still count as violations
    return rc


if __name__ == "__main__":
    main_wrapper(run)
