"""C17 - incrementally inferred search spaces equal a from-scratch computation.

Explicit-state breadth-first search over the REAL transition function: a state is reached by
replaying its event history on a fresh in-memory study plus long-lived calculator objects
(IntersectionSearchSpace with include_pruned False/True, _GroupDecomposedSearchSpace likewise).
Events: enqueue, ask, suggest one of four parameters (two share a name with different ranges) on
any RUNNING trial, tell any RUNNING trial COMPLETE/PRUNED/FAIL (any order), calc. States are
de-duplicated on (canonical study, the calculators' own cursor/search-space state).
"""
from __future__ import annotations

import os
from typing import Any

import optuna
from optuna.distributions import CategoricalDistribution, FloatDistribution, IntDistribution
from optuna.search_space import IntersectionSearchSpace, intersection_search_space
from optuna.search_space.group_decomposed import _GroupDecomposedSearchSpace
from optuna.trial import TrialState

from . import backends
from .canon import state_digest
from .core import Ctx, InternalError, Part, main_wrapper, pmap

PID = "C17"
PARAMS = {
    "x01": ("x", IntDistribution(0, 1)),
    "x02": ("x", IntDistribution(0, 2)),
    "y": ("y", FloatDistribution(0.0, 1.0)),
    "c": ("c", CategoricalDistribution(("a", "b"))),
}
TELLS = {"C": TrialState.COMPLETE, "P": TrialState.PRUNED, "F": TrialState.FAIL}


class World:
    def __init__(self) -> None:
        self.study = optuna.create_study(storage=optuna.storages.InMemoryStorage(),
                                         sampler=optuna.samplers.RandomSampler(seed=0))
        self.trials: list = []  # live Trial objects by number (None for not-yet-asked WAITING ones)
        # a second handle on the same study that only ever calls the calculators (a dashboard, a
        # sampler of another worker): its per-thread caches are never reset by its own ask()/tell()
        self.reader = optuna.load_study(study_name=self.study.study_name, storage=self.study._storage,
                                        sampler=optuna.samplers.RandomSampler(seed=1))
        self.calcs = {
            "isect": IntersectionSearchSpace(include_pruned=False),
            "isect+pruned": IntersectionSearchSpace(include_pruned=True),
            "group": _GroupDecomposedSearchSpace(include_pruned=False),
            "group+pruned": _GroupDecomposedSearchSpace(include_pruned=True),
            "reader:isect": IntersectionSearchSpace(include_pruned=False),
            "reader:isect+pruned": IntersectionSearchSpace(include_pruned=True),
            "reader:group+pruned": _GroupDecomposedSearchSpace(include_pruned=True),
        }
        self.prev: dict = {}

    def frozen(self) -> list:
        return self.study.get_trials(deepcopy=False)

    def enabled(self, max_trials: int) -> list[tuple]:
        ev: list[tuple] = [("calc",)]
        fr = self.frozen()
        n = len(fr)
        waiting = [t.number for t in fr if t.state == TrialState.WAITING]
        if n < max_trials:
            ev.append(("enqueue",))
        if n < max_trials or waiting:
            ev.append(("ask",))
        if n < max_trials:
            ev.append(("add_done", "x01"))
            ev.append(("add_done", "y"))
        for t in fr:
            if t.state == TrialState.RUNNING:
                for key, (name, _) in PARAMS.items():
                    if name not in t.params:
                        ev.append(("suggest", t.number, key))
                for k in TELLS:
                    ev.append(("tell", t.number, k))
        return ev

    def apply(self, ev: tuple, part: Part | None, hist: list) -> None:
        k = ev[0]
        if k == "enqueue":
            self.study.enqueue_trial({"x": 1})
        elif k == "add_done":
            name, dist = PARAMS[ev[1]]
            val = 0.5 if name == "y" else 0
            self.study.add_trial(optuna.trial.create_trial(params={name: val}, distributions={name: dist}, value=2.0))
            while len(self.trials) < len(self.frozen()):
                self.trials.append(None)
        elif k == "ask":
            tr = self.study.ask()
            while len(self.trials) <= tr.number:
                self.trials.append(None)
            self.trials[tr.number] = tr
        elif k == "suggest":
            tr = self.trials[ev[1]]
            name, dist = PARAMS[ev[2]]
            tr._suggest(name, dist)
        elif k == "tell":
            st = TELLS[ev[2]]
            self.study.tell(ev[1], 1.0 if st == TrialState.COMPLETE else None, state=st)
        elif k == "calc":
            self.calc(part, hist)

    def calc(self, part: Part | None, hist: list) -> None:
        fr = self.frozen()
        for name, pruned in (("isect", False), ("isect+pruned", True), ("reader:isect", False), ("reader:isect+pruned", True)):
            got = self.calcs[name].calculate(self.reader if name.startswith("reader:") else self.study)
            want = intersection_search_space(fr, include_pruned=pruned)
            if part is not None:
                part.add("oracle_checks")
                if got != want or list(got) != sorted(got):
                    part.violation(f"{name}|differs-from-scratch",
                                   {"calculator": name, "history": hist, "got": repr(got), "from_scratch": repr(want)})
                prev = self.prev.get(name)
                if prev and not all(k in prev and prev[k] == v for k, v in got.items()):
                    part.violation(f"{name}|grew-after-being-established",
                                   {"calculator": name, "history": hist, "previous": repr(prev), "now": repr(got)})
            if got:
                self.prev[name] = got
        for name, pruned in (("group", False), ("group+pruned", True), ("reader:group+pruned", True)):
            grp = self.calcs[name].calculate(self.reader if name.startswith("reader:") else self.study).search_spaces
            if part is None:
                continue
            part.add("oracle_checks")
            states = (TrialState.COMPLETE, TrialState.PRUNED) if pruned else (TrialState.COMPLETE,)
            fin = [t for t in fr if t.state in states]
            keysets = [set(g) for g in grp]
            allk = [k for g in keysets for k in g]
            rep = {"calculator": name, "history": hist, "groups": [sorted(g) for g in keysets]}
            if len(allk) != len(set(allk)):
                part.violation(f"{name}|groups-overlap", rep)
            seen_params = {p for t in fin for p in t.distributions}
            if set(allk) != seen_params:
                part.violation(f"{name}|groups-do-not-cover-exactly-the-seen-parameters", dict(rep, seen=sorted(seen_params)))
            for t in fin:
                ps = set(t.distributions)
                if any((g & ps) and not (g <= ps) for g in keysets):
                    part.violation(f"{name}|trial-params-not-a-union-of-groups", dict(rep, trial=sorted(ps)))
                    break

    def key(self) -> str:
        fr = self.frozen()
        study = tuple((t.number, t.state.name, tuple(sorted((k, repr(d)) for k, d in t.distributions.items())),
                       tuple(sorted(t.system_attrs.get("fixed_params", {}).items()))) for t in fr)
        calc = tuple((n, state_digest(c)) for n, c in sorted(self.calcs.items()))
        prev = tuple(sorted((n, repr(sorted(v.items(), key=lambda kv: kv[0]))) for n, v in self.prev.items()))
        # hidden per-handle state (thread-local trial caches) is part of the state too: merging two
        # histories that differ only there would be unsound for any code that reads those caches
        caches = tuple(state_digest(getattr(h._thread_local, "cached_all_trials", None)) for h in (self.study, self.reader))
        return repr((study, calc, prev, caches))


def build(hist: list, part: Part | None) -> World:
    w = World()
    for i, ev in enumerate(hist):
        # the oracle runs on every calc of the path; only the last event is new
        w.apply(ev, part if i == len(hist) - 1 else None, hist[: i + 1])
    return w


def task_fn(task: tuple) -> dict:
    if task and task[0] == "threads":
        return thread_task(task)
    prefix, depth, max_trials = task
    backends.setup_determinism()
    optuna.logging.set_verbosity(optuna.logging.ERROR)
    part = Part()
    seen = set()
    w = build(list(prefix), part)
    seen.add(w.key())
    frontier = [list(prefix)]
    for d in range(depth - len(prefix)):
        nxt = []
        for hist in frontier:
            w0 = build(hist, None)
            for ev in w0.enabled(max_trials):
                h2 = hist + [ev]
                w = build(h2, part)
                part.add("transitions")
                k = w.key()
                if k in seen:
                    continue
                seen.add(k)
                nxt.append(h2)
        frontier = nxt
    part.add("states", len(seen))
    if frontier:
        part.sample({"history": frontier[len(frontier) // 2]}, cap=1)
    part.setmax("max_depth", depth)
    return part.out()


def prefixes(plen: int, max_trials: int) -> list[list]:
    """All distinct-state histories of length plen (partitioning for the pool)."""
    seen = set()
    frontier: list = [[]]
    for _ in range(plen):
        nxt = []
        for h in frontier:
            w0 = build(h, None)
            for ev in w0.enabled(max_trials):
                h2 = h + [ev]
                k = build(h2, None).key()
                if k in seen:
                    continue
                seen.add(k)
                nxt.append(h2)
        frontier = nxt
    return frontier


# ---------------------------------------------------------------------------------------------
# two threads sharing one calculator (what optimize(n_jobs>1) does with the sampler's calculator)
# ---------------------------------------------------------------------------------------------
THREAD_SETUPS = {
    # name: (params of the finished trial 0, params the RUNNING trial 1 has suggested, tell state of trial 1)
    "running-drops-y": (("x", "y"), ("x",), "COMPLETE"),
    "running-other-range": (("x", "y"), ("x", "y2"), "COMPLETE"),
    "running-pruned": (("x", "y"), ("x",), "PRUNED"),
}


def thread_task(task: tuple) -> dict:
    """Thread A calls calculate() while thread B finishes the RUNNING trial and calls calculate()
    too; every schedule up to the bound (pre-emption at the lines of the calculators' modules and
    of the in-memory storage). Afterwards one more calculate() must equal the from-scratch space."""
    import importlib

    from optuna.search_space import IntersectionSearchSpace, intersection_search_space
    from optuna.search_space.group_decomposed import _GroupDecomposedSearchSpace

    from . import thx
    from .explore import Chooser, explore

    _, setup, kind, bound = task
    backends.setup_determinism()
    part = Part()
    mods = [importlib.import_module(m) for m in ("optuna.search_space.intersection", "optuna.search_space.group_decomposed",
                                                  "optuna.storages._in_memory")]
    thx.set_instrumented(mods)
    done0, run1, tell_state = THREAD_SETUPS[setup]
    outcomes: set = set()

    def sugg(t: Any, n: str) -> None:
        if n == "y2":
            t.suggest_float("y", 0, 2)  # same name, other range
        else:
            t.suggest_float(n, 0, 1)

    def execute(ch: Chooser) -> dict:
        study = optuna.create_study(sampler=optuna.samplers.RandomSampler(seed=0))
        t0 = study.ask()
        for n in done0:
            sugg(t0, n)
        study.tell(t0, 0.0)
        t1 = study.ask()
        for n in run1:
            sugg(t1, n)
        calc = IntersectionSearchSpace(include_pruned=True) if kind == "isect" else _GroupDecomposedSearchSpace(include_pruned=True)
        calc.calculate(study)
        thx.replace_locks(study._storage)
        sched = thx.Sched(ch, max_steps=20000)

        def a() -> None:
            sched.point("op")
            calc.calculate(study)

        def b() -> None:
            sched.point("op")
            study._storage.set_trial_state_values(t1._trial_id, TrialState[tell_state], [1.0] if tell_state == "COMPLETE" else None)
            calc.calculate(study)

        threads = sched.run([a, b])
        err = [t.error for t in threads if t.error]
        if err:
            raise InternalError(f"driver error {err}")
        got = calc.calculate(study)
        if kind == "isect":
            want = intersection_search_space(study.get_trials(deepcopy=False), include_pruned=True)
            g, w = sorted(got.items(), key=lambda kv: kv[0]), sorted(want.items(), key=lambda kv: kv[0])
            g, w = [(k, repr(v)) for k, v in g], [(k, repr(v)) for k, v in w]
        else:
            fresh = _GroupDecomposedSearchSpace(include_pruned=True)
            w = sorted(sorted(sp) for sp in fresh.calculate(study).search_spaces)
            g = sorted(sorted(sp) for sp in got.search_spaces)
        return {"got": g, "want": w, "deadlock": sched.deadlock, "steps": sched.step}

    def on_exec(ch: Chooser, ex: dict) -> None:
        part.add("executions")
        part.add("transitions", ex["steps"])
        part.add("oracle_checks")
        outcomes.add(repr(ex["got"]))
        if ex["deadlock"]:
            part.violation(f"threads|{kind}|deadlock", {"setup": setup, "schedule": ch.choices})
        elif ex["got"] != ex["want"]:
            # OBSERVATION, not a violation: C17 quantifies over sequential histories; it says nothing
            # about two threads inside calculate() of ONE calculator object. On the pinned tree the
            # two fields (search space, cursor) are read on different source lines, so a complete
            # calculate() of another thread between the two reads pairs an old space with a new
            # cursor (seen for the intersection calculator). Counted and sampled only.
            part.add(f"obs_concurrent_calculate_diverges[{kind}]")
            part.sample({"observation": "concurrent calculate() on one calculator object diverges from scratch", "setup": setup,
                         "calculator": kind, "schedule": ch.choices, "observed": ex["got"], "expected": ex["want"]}, cap=1)

    st = explore(execute, bound, on_exec, max_execs=50000)
    if st["capped"]:
        part.add("caps_hit")
    part.add("states", len(outcomes))
    part.add("thread_scenarios")
    return part.out()


def replay_case(raw: dict, part: Part) -> None:
    backends.setup_determinism()
    optuna.logging.set_verbosity(optuna.logging.ERROR)
    build(list(raw["history"]), part)


def run(tier: str, replay: str | None = None) -> int:
    backends.setup_determinism()
    optuna.logging.set_verbosity(optuna.logging.ERROR)
    ctx = Ctx(PID, tier, "model_checking")
    depth, max_trials = (7, 3) if tier == "quick" else (9, 3)
    pre = prefixes(4, max_trials)
    tasks = [(tuple(p), depth, max_trials) for p in pre]
    # shallow part (depth < 4) once
    tasks.append(((), 4, max_trials))
    if tier == "thorough":
        for p in prefixes(4, 4):
            tasks.append((tuple(p), 8, 4))
    for setup in THREAD_SETUPS:
        for kind in ("isect", "group"):
            tasks.append(("threads", setup, kind, 1 if tier == "quick" else 2))
    pmap(ctx, task_fn, tasks)
    ctx.cov["traces_validated_against_impl"] = ctx.cov.get("oracle_checks", 0)
    ctx.assumptions += [
        "in-memory storage, RandomSampler; the calculators only read study.get_trials",
        "the same parameter name is never suggested twice in one trial (optuna rejects a changed distribution within a trial)",
        "partitions explore sub-trees independently: a state may be counted by several partitions",
    ]
    return ctx.finish(
        exhaustive=True,
        rule=f"breadth-first over events enqueue/ask/suggest(4 params, 2 sharing a name)/tell(C,P,F)/calc up to depth {depth} with at most {max_trials} trials (thorough: depth 9; also 4 trials to depth 8), de-duplicated on (study, calculator internals)",
    )


if __name__ == "__main__":
    main_wrapper(run)
