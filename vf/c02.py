"""C02 - every trial run by optimize/ask/tell ends in a well-formed terminal state.

seqx: objective *programs* (one behaviour per trial index, from a menu of return values of every
type/shape, exceptions before/after reports, prune requests) x objectives {1,2} x catch x
callbacks x hostile sampler/pruner hooks x storages; and the full tell(values, state,
skip_if_finished) product on trials in every state. Oracle = the clauses of the statement.
"""
from __future__ import annotations

import decimal
import fractions
import itertools
import math
import os
from collections.abc import Sequence
from typing import Any

import numpy as np
import optuna
from optuna.trial import TrialState

from . import backends
from .backends import Env
from .canon import state_digest
from .core import Ctx, InternalError, Part, main_wrapper, pmap

PID = "C02"
NAN = float("nan")
INF = float("inf")


class FloatOK:
    def __float__(self) -> float:
        return 2.0

    def __repr__(self) -> str:
        return "FloatOK()"


class FloatRaises:
    def __init__(self, exc: type) -> None:
        self.exc = exc

    def __float__(self) -> float:
        raise self.exc("no float")

    def __repr__(self) -> str:
        return f"FloatRaises({self.exc.__name__})"


class CustomError(Exception):
    pass


def values_menu() -> dict[str, Any]:
    return {
        "1.0": 1.0, "0": 0, "True": True, "inf": INF, "-inf": -INF, "nan": NAN, "None": None,
        "'a'": "a", "'5'": "5", "'nan'": "nan", "''": "", "b'5'": b"5",
        "[1.0]": [1.0], "(1.0,)": (1.0,), "[1.0,2.0]": [1.0, 2.0], "[]": [], "[None]": [None], "['5']": ["5"],
        "[nan]": [NAN], "[1.0,nan]": [1.0, NAN], "[1,2,3]": [1, 2, 3],
        "[inf,-inf]": [INF, -INF], "[-inf,inf]": (-INF, INF), "[inf,1.0]": [INF, 1.0], "[-inf,-inf]": [-INF, -INF],
        "np.float64": np.float64(1.5), "np.array(1.0)": np.array(1.0), "np.array([1.0])": np.array([1.0]),
        "np.array([1.,2.])": np.array([1.0, 2.0]), "np.int32": np.int32(3),
        "Decimal": decimal.Decimal("1.5"), "Fraction": fractions.Fraction(1, 2), "10**400": 10**400,
        "1j": 1j, "object()": object(), "FloatOK": FloatOK(), "FloatRaises(ValueError)": FloatRaises(ValueError),
        "FloatRaises(TypeError)": FloatRaises(TypeError), "FloatRaises(RuntimeError)": FloatRaises(RuntimeError),
        "[FloatOK,1.0]": [FloatOK(), 1.0], "{}": {}, "{1.0}": {1.0}, "range(1)": range(1), "(x for x)": None,
    }


VALUE_KEYS = [k for k in values_menu() if k != "(x for x)"]
EXCS = {"ValueError": ValueError, "KeyError": KeyError, "CustomError": CustomError,
        "KeyboardInterrupt": KeyboardInterrupt, "TrialPruned": optuna.TrialPruned}


def behaviours() -> list[tuple]:
    bs: list[tuple] = [("ret", k, ()) for k in VALUE_KEYS]
    for e in EXCS:
        bs.append(("raise", e, ()))
        bs.append(("raise", e, (1.0,)))
    bs.append(("raise", "TrialPruned", (1.0, NAN)))
    bs.append(("raise", "TrialPruned", (NAN,)))
    bs.append(("ret", "1.0", (0.5, NAN)))
    bs.append(("ret", "nan", (0.5,)))
    return bs


def expected_complete(value: Any, n_obj: int) -> tuple[str, Any]:
    """('complete', floats) | ('fail', None) | ('either', floats) per the statement: COMPLETE
    exactly when the returned value(s) are float-convertible, NaN-free and one per objective.
    float-convertibility is computed by calling float() here, in the same interpreter."""
    if value is None:
        return "fail", None
    items = list(value) if isinstance(value, Sequence) else [value]
    ambiguous = isinstance(value, (str, bytes, bytearray))  # a str is a Sequence AND float()-able as a whole
    try:
        fl = [float(v) for v in items]
    except Exception:
        if ambiguous:
            try:
                whole = float(value)
                if not math.isnan(whole) and n_obj == 1:
                    return "either", [whole]
            except Exception:
                pass
        return "fail", None
    if any(math.isnan(x) for x in fl) or len(fl) != n_obj:
        return "fail", None
    if ambiguous:
        return "either", fl
    return "complete", fl


class Hostile(optuna.samplers.RandomSampler):
    """RandomSampler that raises in one hook for one trial number."""

    def __init__(self, hook: str | None, at: int) -> None:
        super().__init__(seed=0)
        self.hook, self.at = hook, at

    def _maybe(self, hook: str, trial: Any) -> None:
        if self.hook is not None and self.hook.split("!")[0] == hook and trial.number == self.at:
            if self.hook.endswith("!kbd"):
                raise KeyboardInterrupt()  # Ctrl-C landing inside the sampler
            raise RuntimeError(f"hostile {hook}")

    def before_trial(self, study, trial):
        self._maybe("before_trial", trial)

    def infer_relative_search_space(self, study, trial):
        self._maybe("infer_relative_search_space", trial)
        return {"x": optuna.distributions.FloatDistribution(0, 1)} if (self.hook or "").startswith("sample_relative") else {}

    def sample_relative(self, study, trial, search_space):
        self._maybe("sample_relative", trial)
        return {}

    def sample_independent(self, study, trial, name, dist):
        self._maybe("sample_independent", trial)
        return super().sample_independent(study, trial, name, dist)

    def after_trial(self, study, trial, state, values):
        self._maybe("after_trial", trial)


class HostilePruner(optuna.pruners.BasePruner):
    def __init__(self, at: int) -> None:
        self.at = at

    def prune(self, study, trial):
        if trial.number == self.at:
            raise RuntimeError("hostile prune")
        return False


HOOKS = [None, "before_trial", "infer_relative_search_space", "sample_relative", "sample_independent", "after_trial", "prune",
         "before_trial!kbd", "infer_relative_search_space!kbd", "sample_relative!kbd", "sample_independent!kbd", "after_trial!kbd"]


def run_program(config: str, prog: tuple, n_obj: int, catch_name: str, cb_name: str, hook: str | None,
                part: Part) -> None:
    menu = values_menu()
    catch = {"()": (), "(ValueError,)": (ValueError,), "(Exception,)": (Exception,)}[catch_name]
    env = Env(config)
    try:
        sampler = Hostile(hook if hook != "prune" else None, 0)
        pruner = HostilePruner(0) if hook == "prune" else optuna.pruners.NopPruner()
        study = optuna.create_study(storage=env.storage, directions=["minimize"] * n_obj, sampler=sampler, pruner=pruner)
        ran: list = []  # (trial number, behaviour) of every objective invocation
        cb_calls: list = []

        def objective(trial: optuna.Trial) -> Any:
            b = prog[min(len(ran), len(prog) - 1)]
            ran.append((trial.number, b))
            trial.suggest_float("x", 0, 1)
            for step, v in enumerate(b[2]):
                if n_obj == 1:
                    trial.report(v, step)
            if hook == "prune" and n_obj == 1:
                trial.should_prune()
            if b[0] == "raise":
                raise EXCS[b[1]]("boom")
            return menu[b[1]]

        def cb(study_: Any, ft: Any) -> None:
            cb_calls.append(ft.number)
            if cb_name == "raising" and ft.number == 0:
                raise RuntimeError("callback")
            if cb_name == "stop" and ft.number == 0:
                study_.stop()

        n_trials = len(prog)
        raised = None
        try:
            study.optimize(objective, n_trials=n_trials, catch=catch, callbacks=[cb])
        except BaseException as e:  # KeyboardInterrupt included
            raised = e
        part.add("evaluations")
        part.add("transitions", len(ran))
        trials = study.get_trials(deepcopy=False)
        rep = {"config": config, "program": prog, "n_objectives": n_obj, "catch": catch_name, "callback": cb_name,
               "hostile_hook": hook, "optimize_raised": None if raised is None else f"{type(raised).__name__}: {raised}",
               "trials": [(t.number, t.state.name, t.values) for t in trials]}

        def fail(clause: str, cls: str) -> None:
            part.violation(f"optimize|{clause}|{cls}", dict(rep, clause=clause))

        # (1) nothing left RUNNING / WAITING
        for t in trials:
            if not t.state.is_finished():
                b = dict(ran).get(t.number)
                cls = f"hook:{hook}" if hook and t.number == 0 else (f"{b[0]}:{b[1]}" if b else "not-run")
                fail(f"trial-left-{t.state.name}", cls)
        # (2) per trial: state and values
        by_num = dict(ran)
        for t in trials:
            b = by_num.get(t.number)
            if b is None or not t.state.is_finished():
                continue
            hostile_here = hook is not None and t.number == 0
            if t.state == TrialState.FAIL and t.values is not None:
                fail("FAIL-trial-carries-values", f"{b[0]}:{b[1]}")
            if t.state == TrialState.COMPLETE:
                if t.values is None or len(t.values) != n_obj or any((not isinstance(v, float)) or math.isnan(v) for v in t.values):
                    fail("COMPLETE-with-malformed-values", f"{b[0]}:{b[1]}")
            if hostile_here:
                continue  # which terminal state a sabotaged trial gets is not specified
            if b[0] == "ret":
                kind, fl = expected_complete(menu[b[1]], n_obj)
                if kind == "complete" and (t.state != TrialState.COMPLETE or t.values != fl):
                    fail("convertible-return-not-COMPLETE-with-those-floats", f"ret:{b[1]}")
                if kind == "fail" and t.state != TrialState.FAIL:
                    fail("unconvertible-return-not-FAIL", f"ret:{b[1]}")
                if kind == "either" and not (t.state == TrialState.FAIL or (t.state == TrialState.COMPLETE and t.values == fl)):
                    fail("str-return-neither-FAIL-nor-COMPLETE-with-float", f"ret:{b[1]}")
            elif b[1] == "TrialPruned":
                if t.state != TrialState.PRUNED:
                    fail("TrialPruned-not-PRUNED", "raise:TrialPruned")
            else:
                if t.state != TrialState.FAIL:
                    fail("exception-not-FAIL", f"raise:{b[1]}")
        # (3) propagation: an exception not in catch propagates after its trial is failed
        if hook is None and cb_name == "recorder":
            first_prop = None
            for num, b in ran:
                if b[0] == "raise" and b[1] != "TrialPruned" and not (EXCS[b[1]] is not KeyboardInterrupt and isinstance(EXCS[b[1]]("x"), catch)):
                    first_prop = (num, b)
                    break
            if first_prop is not None:
                if raised is None or not isinstance(raised, EXCS[first_prop[1][1]]):
                    fail("uncaught-exception-did-not-propagate", f"raise:{first_prop[1][1]}")
                if ran[-1][0] != first_prop[0]:
                    fail("loop-continued-after-propagating-exception", f"raise:{first_prop[1][1]}")
            else:
                if raised is not None:
                    cls = f"{ran[-1][1][0]}:{ran[-1][1][1]}" if ran else "nothing-ran"
                    fail(f"optimize-raised-{type(raised).__name__}-without-uncaught-objective-exception", cls)
                # (4) exactly n_trials trials, callbacks once per trial
                if len(trials) != n_trials:
                    fail("n_trials-not-respected", str(len(trials)))
                if cb_calls != [t.number for t in trials]:
                    fail("callbacks-not-once-per-trial", str(cb_calls))
            if first_prop is not None and cb_calls != [n for n, _ in ran[:-1]]:
                fail("callbacks-not-once-per-non-propagating-trial", str(cb_calls))
        if cb_name == "stop" and hook is None and raised is None:
            if len(trials) != 1:
                fail("stop-in-callback-not-respected", str(len(trials)))
    finally:
        env.close()


# ---------------------------------------------------------------------------------------------
TELL_STATES = [None, TrialState.COMPLETE, TrialState.PRUNED, TrialState.FAIL, TrialState.RUNNING, TrialState.WAITING]
TELL_VALUES = ["<omit>", "1.0", "nan", "None", "'5'", "[1.0]", "[1.0,2.0]", "[inf,-inf]", "[1.0,nan]", "[]", "[None]", "10**400",
               "FloatRaises(ValueError)", "inf", "np.array([1.0])"]


def run_tell(config: str, n_obj: int, part: Part) -> None:
    menu = values_menu()
    for tstate, vkey, state, skip in itertools.product(
            ["RUNNING", "RUNNING+report", "WAITING", "COMPLETE", "PRUNED", "FAIL"], TELL_VALUES, TELL_STATES, (False, True)):
        env = Env(config)
        try:
            study = optuna.create_study(storage=env.storage, directions=["minimize"] * n_obj,
                                        sampler=optuna.samplers.RandomSampler(seed=0))
            if tstate == "WAITING":
                study.enqueue_trial({"x": 0.5})
                num = 0
                tr: Any = 0
            else:
                t = study.ask()
                t.suggest_float("x", 0, 1)
                num, tr = t.number, t
                if tstate == "RUNNING+report" and n_obj == 1:
                    t.report(0.25, 0)
                if tstate == "COMPLETE":
                    study.tell(t, [1.0] * n_obj)
                elif tstate == "PRUNED":
                    study.tell(t, state=TrialState.PRUNED)
                elif tstate == "FAIL":
                    study.tell(t, state=TrialState.FAIL)
            before = study.get_trials(deepcopy=True)[num]
            d_before = state_digest(before)
            kwargs: dict = {"skip_if_finished": skip}
            if state is not None:
                kwargs["state"] = state
            args = [] if vkey == "<omit>" else [menu[vkey]]
            raised = None
            try:
                study.tell(tr, *args, **kwargs)
            except Exception as e:
                raised = type(e).__name__
            after = study.get_trials(deepcopy=True)[num]
            part.add("evaluations")
            part.add("transitions")
            rep = {"config": config, "n_objectives": n_obj, "trial_state_before": tstate, "values": vkey,
                   "state_arg": None if state is None else state.name, "skip_if_finished": skip, "raised": raised,
                   "after": (after.state.name, after.values)}

            def fail(clause: str) -> None:
                part.violation(f"tell|{clause}|before={tstate.split('+')[0]} state={rep['state_arg']}", dict(rep, clause=clause))

            if before.state.is_finished():
                if state_digest(after) != d_before:
                    fail("finished-trial-altered")
                continue
            if raised is not None:
                if state_digest(after) != d_before and after.state.is_finished() is False:
                    fail("raising-tell-changed-an-unfinished-trial")
                if after.state.is_finished():
                    # allowed only as the documented FAIL fallback
                    if after.state != TrialState.FAIL or after.values is not None:
                        fail("raising-tell-left-malformed-terminal-trial")
                continue
            # tell returned on an unfinished trial
            if not after.state.is_finished():
                fail(f"tell-returned-but-trial-{after.state.name}")
            elif after.state == TrialState.COMPLETE:
                if after.values is None or len(after.values) != n_obj or any(not isinstance(v, float) or math.isnan(v) for v in after.values):
                    fail("COMPLETE-with-malformed-values")
                elif vkey != "<omit>":
                    kind, fl = expected_complete(menu[vkey], n_obj)
                    if kind == "fail" or (fl is not None and after.values != fl):
                        fail("COMPLETE-although-values-not-convertible-or-different")
            elif after.state == TrialState.FAIL and after.values is not None:
                fail("FAIL-trial-carries-values")
        finally:
            env.close()

# ---------------------------------------------------------------------------------------------
# n_jobs = 2: Study.optimize's own thread pool under the cooperative scheduler (thx)
# ---------------------------------------------------------------------------------------------
PAR_BEHAVIOURS = [("ret", "1.0", ()), ("ret", "None", ()), ("ret", "'5'", ()), ("raise", "ValueError", ()),
                  ("raise", "TrialPruned", (1.0,)), ("raise", "CustomError", ())]


class ParRun:
    def __init__(self, prog: tuple, catch_name: str, cb_name: str) -> None:
        import importlib

        from . import thx

        self.prog, self.catch_name, self.cb_name = prog, catch_name, cb_name
        self.mods = [importlib.import_module("optuna.study._optimize"), importlib.import_module("optuna.storages._in_memory")]
        thx.set_instrumented(self.mods)

    def execute(self, ch: Any) -> dict:
        import optuna.study._optimize as opt

        from . import thx

        menu = values_menu()
        catch = {"()": (), "(ValueError,)": (ValueError,)}[self.catch_name]
        backends.reset_uuid()
        study = optuna.create_study(storage=optuna.storages.InMemoryStorage(), sampler=optuna.samplers.RandomSampler(seed=0))
        thx.replace_locks(study._storage)
        ran: list = []
        cb_calls: list = []
        out: dict = {"raised": None}

        def objective(trial: optuna.Trial) -> Any:
            b = self.prog[min(trial.number, len(self.prog) - 1)]
            ran.append((trial.number, b))
            trial.suggest_float("x", 0, 1)
            for step, v in enumerate(b[2]):
                trial.report(v, step)
            if b[0] == "raise":
                raise EXCS[b[1]]("boom")
            return menu[b[1]]

        def cb(study_: Any, ft: Any) -> None:
            cb_calls.append(ft.number)
            if self.cb_name == "stop" and ft.number == 0:
                study_.stop()
            if self.cb_name == "stop-any":
                study_.stop()

        sched = thx.Sched(ch, max_steps=100000)
        real_pool, real_wait = opt.ThreadPoolExecutor, opt.wait
        opt.ThreadPoolExecutor, opt.wait = thx.SchedExecutor, thx.sched_wait

        def main() -> None:
            try:
                study.optimize(objective, n_trials=len(self.prog), n_jobs=2, catch=catch, callbacks=[cb])
            except thx.DeadlockAbort:
                raise
            except BaseException as e:
                out["raised"] = e

        try:
            threads = sched.run([main])
        finally:
            opt.ThreadPoolExecutor, opt.wait = real_pool, real_wait
        errs = [t.error for t in threads if t.error and t.error != "deadlock"]
        if errs:
            raise InternalError(f"driver error {errs}")
        trials = study.get_trials(deepcopy=False)
        return {"ran": ran, "cb": cb_calls, "raised": out["raised"], "deadlock": sched.deadlock, "steps": sched.step,
                "trials": [(t.number, t.state, t.values) for t in trials]}

    def check(self, ex: dict) -> list[tuple[str, str]]:
        bad: list = []
        if ex["deadlock"]:
            return [("deadlock", "")]
        menu = values_menu()
        catch = {"()": (), "(ValueError,)": (ValueError,)}[self.catch_name]
        by_num = dict(ex["ran"])
        for num, st, vals in ex["trials"]:
            b = by_num.get(num)
            if not st.is_finished():
                bad.append((f"trial-left-{st.name}", f"{b}"))
                continue
            if b is None:
                continue
            if b[0] == "ret":
                kind, fl = expected_complete(menu[b[1]], 1)
                if kind == "complete" and (st != TrialState.COMPLETE or vals != fl):
                    bad.append(("convertible-return-not-COMPLETE", b[1]))
                if kind == "fail" and st != TrialState.FAIL:
                    bad.append(("unconvertible-return-not-FAIL", b[1]))
            elif b[1] == "TrialPruned":
                if st != TrialState.PRUNED:
                    bad.append(("TrialPruned-not-PRUNED", ""))
            elif st != TrialState.FAIL:
                bad.append(("exception-not-FAIL", b[1]))
            if st == TrialState.FAIL and vals is not None:
                bad.append(("FAIL-trial-carries-values", ""))
        uncaught = [b for _, b in ex["ran"] if b[0] == "raise" and b[1] != "TrialPruned" and not isinstance(EXCS[b[1]]("x"), catch)]
        if uncaught:
            if ex["raised"] is None or not any(isinstance(ex["raised"], EXCS[b[1]]) for b in uncaught):
                bad.append(("uncaught-exception-did-not-propagate", f"{[b[1] for b in uncaught]} raised={type(ex['raised']).__name__}"))
        else:
            if ex["raised"] is not None:
                bad.append((f"optimize-raised-{type(ex['raised']).__name__}-without-uncaught-objective-exception", ""))
            elif self.cb_name == "recorder":
                if len(ex["trials"]) != len(self.prog):
                    bad.append(("n_trials-not-respected", str(len(ex["trials"]))))
                if sorted(ex["cb"]) != [t[0] for t in ex["trials"]]:
                    bad.append(("callbacks-not-once-per-trial", str(ex["cb"])))
            elif len(ex["trials"]) > len(self.prog):
                bad.append(("more-than-n_trials", str(len(ex["trials"]))))
        return bad


def par_task(task: tuple) -> dict:
    from .explore import Chooser, explore

    _, prog, catch_name, cb_name, bound = task
    backends.setup_determinism()
    part = Part()
    run = ParRun(prog, catch_name, cb_name)
    outcomes: set = set()
    first = {"done": False}

    def on_exec(ch: Any, ex: dict) -> None:
        part.add("evaluations")
        part.add("transitions", ex["steps"])
        # which of several uncaught exceptions optimize re-raises depends on the iteration order of a
        # set of futures (optuna's own nondeterminism): not part of the signature
        sig = (tuple((n, s.name, tuple(v) if v else None) for n, s, v in ex["trials"]), ex["raised"] is None)
        if not first["done"]:
            ex2 = run.execute(Chooser(ch.choices))
            sig2 = (tuple((n, s.name, tuple(v) if v else None) for n, s, v in ex2["trials"]), ex2["raised"] is None)
            if sig2 != sig:
                raise InternalError(f"replaying one schedule twice differed: {task}")
            first["done"] = True
        outcomes.add(sig)
        for clause, detail in run.check(ex):
            part.violation(f"optimize(n_jobs=2)|{clause}", {"program": prog, "catch": catch_name, "callback": cb_name,
                                                            "schedule": ch.choices, "clause": clause, "detail": detail,
                                                            "trials": [(n, s.name, v) for n, s, v in ex["trials"]],
                                                            "raised": repr(ex["raised"])})

    st = explore(run.execute, bound, on_exec, max_execs=40000)
    if st["capped"]:
        part.add("caps_hit")
    part.add("states", len(outcomes))
    part.add("parallel_scenarios")
    part.setmax("max_points", st["max_points"])
    return part.out()



def task_fn(task: tuple) -> dict:
    if task[0] == "par":
        return par_task(task)
    backends.setup_determinism()
    part = Part()
    kind = task[0]
    if kind == "prog":
        _, config, first, depth, n_obj = task
        bs = behaviours()
        for rest in itertools.product(bs, repeat=depth - 1):
            prog = (first,) + rest
            run_program(config, prog, n_obj, "()", "recorder", None, part)
            part.add("states")
        part.sample({"config": config, "program": (first,) + ((bs[3],) * (depth - 1))}, cap=1)
    elif kind == "variants":
        _, config, first = task
        for n_obj in (1, 2):
            for catch in ("()", "(ValueError,)", "(Exception,)"):
                for cbn in ("recorder", "raising", "stop"):
                    for second in (("ret", "1.0", ()), ("raise", "ValueError", ())):
                        run_program(config, (first, second), n_obj, catch, cbn, None, part)
                        part.add("states")
    elif kind == "hooks":
        _, config, n_obj = task
        for hook in HOOKS[1:]:
            for first in (("ret", "1.0", ()), ("ret", "None", ()), ("raise", "ValueError", ()), ("raise", "TrialPruned", (1.0,))):
                for catch in ("()", "(Exception,)"):
                    run_program(config, (first, ("ret", "1.0", ())), n_obj, catch, "recorder", hook, part)
                    part.add("states")
    elif kind == "tell":
        _, config, n_obj = task
        run_tell(config, n_obj, part)
        part.add("states")
    return part.out()


def replay_case(raw: dict, part: Part) -> None:
    backends.setup_determinism()
    backends.sqlite_template()
    if "program" in raw:
        run_program(raw["config"], tuple(raw["program"]), raw["n_objectives"], raw["catch"], raw["callback"], raw["hostile_hook"], part)
    else:
        run_tell(raw["config"], raw["n_objectives"], part)


def run(tier: str, replay: str | None = None) -> int:
    backends.setup_determinism()
    ctx = Ctx(PID, tier, "model_checking")
    backends.sqlite_template()
    bs = behaviours()
    tasks: list[tuple] = []
    for b in bs:
        tasks.append(("prog", "mem", b, 2 if tier == "quick" else 3, 1))
        tasks.append(("prog", "mem", b, 1 if tier == "quick" else 2, 2))
        if b[1].startswith("[") and tier == "quick":
            tasks.append(("prog", "mem", b, 2, 2))  # container returns: pairs also with 2 objectives
        for cfg in ("jfile-sym", "grpc(mem)", "cached"):
            tasks.append(("prog", cfg, b, 1 if (tier == "quick" or cfg == "cached") else 2, 1))
        tasks.append(("variants", "mem", b))
    for cfg in ("mem", "jfile-sym", "grpc(mem)", "cached"):
        for n_obj in (1, 2):
            tasks.append(("hooks", cfg, n_obj))
    for cfg in (("mem", "jfile-sym") if tier == "quick" else ("mem", "jfile-sym", "grpc(mem)", "cached")):
        for n_obj in (1, 2):
            tasks.append(("tell", cfg, n_obj))
    # n_jobs=2 under the thread scheduler (preemption bound 1 quick / 2 thorough)
    for a in PAR_BEHAVIOURS:
        for b in PAR_BEHAVIOURS:
            for catch in (("()",) if tier == "quick" else ("()", "(ValueError,)")):
                tasks.append(("par", (a, b), catch, "recorder", 1 if tier == "quick" else 2))
    for prog in [(PAR_BEHAVIOURS[0],) * 3, (PAR_BEHAVIOURS[3], PAR_BEHAVIOURS[0], PAR_BEHAVIOURS[0]),
                 (PAR_BEHAVIOURS[0], PAR_BEHAVIOURS[0], PAR_BEHAVIOURS[3])]:
        tasks.append(("par", prog, "()", "recorder", 1))
        tasks.append(("par", prog, "(ValueError,)", "stop", 1))
        tasks.append(("par", prog, "()", "stop", 1))
    for prog in [(PAR_BEHAVIOURS[0], PAR_BEHAVIOURS[5], PAR_BEHAVIOURS[0]), (PAR_BEHAVIOURS[5], PAR_BEHAVIOURS[0], PAR_BEHAVIOURS[0], PAR_BEHAVIOURS[0])]:
        tasks.append(("par", prog, "()", "stop", 1))
        tasks.append(("par", prog, "()", "stop-any", 1))
    pmap(ctx, task_fn, tasks)
    ctx.cov["traces_validated_against_impl"] = ctx.cov.get("evaluations", 0)
    ctx.assumptions += [
        "n_jobs=2: Study.optimize's ThreadPoolExecutor/wait are rebound to scheduler-controlled equivalents; preemption at source lines of optuna/study/_optimize.py and the in-memory storage, bound 1 (quick) / 2 (thorough)",
        "a str/bytes return value is both a Sequence and float()-able as a whole: FAIL or COMPLETE-with-that-float are both accepted",
        "which terminal state a trial gets when a sampler/pruner hook raises is not specified; it must be terminal",
    ]
    backends.cleanup_root()
    return ctx.finish(
        exhaustive=not ctx.cov.get("caps_hit"),
        rule="n_jobs=2: all pairs of 6 behaviours (+3-trial programs, stop callback) x all schedules up to the preemption bound; n_jobs=1: all behaviour tuples of length 2 (thorough 3) from a 54-entry menu on mem (singles elsewhere and for 2 objectives), x catch x callbacks x 6 hostile hooks; tell: trial state x 13 values x 6 state args x skip_if_finished",
    )


if __name__ == "__main__":
    main_wrapper(run)
