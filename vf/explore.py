"""Core stateless explorer: an execution is a deterministic function of a choice sequence.

Iterative deviation bounding (CHESS): every alternative taken at a point where the default
(index 0 = keep running the current thread / benign environment answer) was available costs one
deviation; executions always run to completion.
"""
from __future__ import annotations

from typing import Any, Callable

from .core import InternalError


class Chooser:
    """Records the choice points of one execution and replays a prefix."""

    def __init__(self, prefix: list[int] | tuple = (), visited: dict | None = None, bound: int = 0) -> None:
        self.prefix = list(prefix)
        self.visited = visited
        self.bound = bound
        self.pruned_from: int | None = None
        self.points: list[tuple[int, bool, str]] = []  # (n alternatives, default is free?, kind)
        self.choices: list[int] = []
        self.labels: list[Any] = []

    def choose(self, n: int, costly: bool = True, kind: str = "thread", label: Any = None,
               state_key: Any = None) -> int:
        """n >= 1 alternatives; index 0 is the default. costly=True: taking an alternative is a
        deviation (pre-emption of a runnable thread, non-benign environment answer)."""
        if n <= 1:
            return 0
        i = len(self.choices)
        if i < len(self.prefix):
            c = self.prefix[i]
            if c >= n:
                raise InternalError(
                    f"replay divergence at point {i}: recorded choice {c} but only {n} alternatives ({kind})")
        else:
            c = 0
            if state_key is not None and self.visited is not None and self.pruned_from is None:
                # state caching: a state already expanded with at least as much deviation budget
                # left has the same futures -> no branching from here on in this execution
                rem = self.bound - self.deviations()
                k = hash(state_key)
                if self.visited.get(k, -1) >= rem:
                    self.pruned_from = i
                else:
                    self.visited[k] = rem
        self.points.append((n, costly, kind))
        self.choices.append(c)
        self.labels.append(label)
        return c

    def deviations(self, upto: int | None = None) -> int:
        k = len(self.choices) if upto is None else upto
        return sum(1 for j in range(k) if self.choices[j] != 0 and self.points[j][1])


def explore(run_fn: Callable[[Chooser], Any], bound: int, on_exec: Callable[[Chooser, Any], None],
            max_execs: int | None = None, cache_states: bool = False, shard: tuple | None = None) -> dict:
    """Depth-first enumeration of all executions with at most `bound` deviations.
    Returns {'executions', 'capped', 'max_points'}."""
    stack: list[list[int]] = [[]]
    n_exec = 0
    max_points = 0
    capped = False
    visited: dict | None = {} if cache_states else None
    pruned = 0
    n_root_alt = [0]
    while stack:
        if max_execs is not None and n_exec >= max_execs:
            capped = True
            break
        prefix = stack.pop()
        ch = Chooser(prefix, visited, bound)
        result = run_fn(ch)
        if len(ch.choices) < len(prefix):
            raise InternalError(f"replay divergence: execution ended after {len(ch.choices)} points, prefix has {len(prefix)}")
        n_exec += 1
        max_points = max(max_points, len(ch.points))
        root = not prefix
        if not (root and shard is not None and shard[0] != 0):
            on_exec(ch, result)  # the root execution belongs to shard 0
        dev = ch.deviations(len(prefix))
        end = len(ch.points)
        if ch.pruned_from is not None:
            end = ch.pruned_from
            pruned += 1
        for i in range(len(prefix), end):
            n, costly, _ = ch.points[i]
            c = dev + (1 if costly else 0)
            if c <= bound:
                for alt in range(n - 1, 0, -1):
                    if root and shard is not None:
                        # partition of the first-level alternatives among independent shards
                        n_root_alt[0] += 1
                        if n_root_alt[0] % shard[1] != shard[0]:
                            continue
                    stack.append(ch.choices[:i] + [alt])
            if ch.choices[i] != 0 and costly:
                dev += 1
    return {"executions": n_exec, "capped": capped, "max_points": max_points, "pruned": pruned,
            "cached_states": len(visited) if visited is not None else 0}
