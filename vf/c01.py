"""C01 - every backend implements the one storage contract (seqx over RefStorage).

Explicit-state search: a node is a history (operation list); its state is (reference-model state,
digest of ALL implementation state); successors = every operation of a collision-forcing
alphabet; the oracle compares each operation's outcome and, after it, the full observation
(all public getters on all handles) with the reference model. States are de-duplicated on the
pair (model state, implementation digest) - never on the model alone.
"""
from __future__ import annotations

import os
import sys
import time
from typing import Any

from . import backends
from .backends import Env
from .canon import canon_value
from .core import Ctx, Part, pmap, main_wrapper
from .refmodel import RefStorage
from .sharness import (
    MAX, MIN, S, NEVER, Binding, TEMPLATE_KINDS, apply_op, targets_retired, clause_of, compare_obs, observe_impl,
    observe_model,
)

PID = "C01"
NAN = float("nan")
INF = float("inf")


def cfg_class(config: str) -> str:
    """Configuration class used in finding keys."""
    return config


def alphabet(model: RefStorage, b: Binding, size: str) -> list[tuple]:
    """Operations offered in a state. size: 'full' | 'small'."""
    ops: list[tuple] = []
    live = sorted(model.studies)
    creates = [("A", (MIN,)), ("B", (MAX,)), ("A", (MIN, MAX)), (None, (MIN,))]
    if size == "small":
        creates = [("A", (MIN,)), ("A", (MAX,)), ("B", (MIN, MAX))]
    if len(live) < 2:
        for nm, d in creates:
            ops.append(("create_study", nm, d))
    elif size == "full":
        ops.append(("create_study", "A", (MIN,)))  # duplicate or re-creation
    s_targets = live[:2]
    dead = sorted(s for s in model.dead_studies if s not in b.retired_s)[:1]
    for sid in s_targets + dead + [NEVER]:
        real = sid in model.studies
        ops.append(("delete_study", sid))
        ops.append(("study_user_attr", sid, "k", [1, {"k": None}]))
        if real or size == "full":
            ops.append(("study_system_attr", sid, "s", 1.5))
        if real:
            ops.append(("study_user_attr", sid, "k", "s"))
        n_trials = len(model.studies[sid]["trials"]) if real else 0
        if n_trials < 3:
            ops.append(("create_trial", sid, None))
            kinds = TEMPLATE_KINDS if size == "full" else ["wait", "comp", "pruned_nan", "run"]
            for k in (kinds if real else ["wait"]):
                ops.append(("create_trial", sid, k))
        if real:
            ops.append(("read_waiting", sid, False))
            if size == "full":
                ops.append(("read_all", sid, False))
    t_targets: list[int] = []
    for sid in s_targets:
        t_targets += model.studies[sid]["trials"][:3]
    dead_t = sorted(t for t in model.dead_trials if t not in b.retired_t and t in b.t_m2i)[:1]
    for tid in t_targets + dead_t + [NEVER]:
        t = model.trials.get(tid)
        st = t["state"] if t else None
        n_obj = len(model.studies[t["study"]]["directions"]) if t else 1
        va = [1.0, 2.0][:n_obj]
        vb = [INF, -1.0][:n_obj]
        ops.append(("set_state", tid, S.RUNNING, None))
        ops.append(("set_state", tid, S.COMPLETE, tuple(va)))
        ops.append(("set_state", tid, S.FAIL, None))
        if t is not None:
            ops.append(("set_state", tid, S.RUNNING, tuple(va)))
            ops.append(("set_state", tid, S.COMPLETE, tuple(vb)))
            ops.append(("set_state", tid, S.PRUNED, None))
            if size == "full":
                ops.append(("set_state", tid, S.PRUNED, tuple(va)))
                ops.append(("set_state", tid, S.WAITING, None))
        if st == S.WAITING:
            continue  # WAITING trials: only the state field may be written (contract)
        if t is None or "p" not in t["params"]:
            ops.append(("set_param", tid, "p", "f", 0.5))
            if t is not None:
                ops.append(("set_param", tid, "p", "i", 3.0))
        if t is not None and size == "full":
            if "x" not in t["params"]:
                ops.append(("set_param", tid, "x", "f", 0.25))
            if "q" not in t["params"]:
                ops.append(("set_param", tid, "q", "c", 3.0))
        ops.append(("set_iv", tid, 0, 0.5))
        if t is not None:
            ops.append(("set_iv", tid, 0, NAN))
            ops.append(("set_iv", tid, 0, INF))  # the same step again: one non-finite value replaces another
            ops.append(("set_iv", tid, 1, -INF))
        ops.append(("trial_user_attr", tid, "k", [1, {"k": None}]))
        if t is not None:
            ops.append(("trial_user_attr", tid, "k", 1))
            ops.append(("trial_system_attr", tid, "s", "v"))
    return ops


# Non-initial states (DESIGN C01): exploration continues from each of these prefixes.
SEEDS: dict[str, list[tuple]] = {
    "empty": [],
    "running": [("create_study", "A", (MIN,)), ("create_trial", 0, None)],
    "waiting": [("create_study", "A", (MIN,)), ("create_trial", 0, "wait")],
    "finished": [("create_study", "A", (MAX,)), ("create_trial", 0, None), ("set_state", 0, S.COMPLETE, (1.0,))],
    "template-comp": [("create_study", "A", (MIN, MAX)), ("create_trial", 0, "comp")],
    "two-studies": [("create_study", "A", (MIN,)), ("create_study", "B", (MAX,)), ("create_trial", 1, None),
                    ("create_trial", 0, None)],
    # the deleted study's trials carried every kind of child row (params, values, attrs, intermediate
    # values): whatever survives the delete re-attaches to the ids SQLite re-issues
    "recreated": [("create_study", "A", (MIN,)), ("create_trial", 0, "comp"), ("create_trial", 0, "run"),
                  ("delete_study", 0), ("create_study", "A", (MAX,))],
    "wait-run-fin": [("create_study", "A", (MIN,)), ("create_trial", 0, "wait"), ("create_trial", 0, None),
                     ("set_state", 1, S.COMPLETE, (2.0,)), ("read_waiting", 0, False)],
    # a step already holding a non-finite value (every backend encodes those specially)
    "iv-nan": [("create_study", "A", (MIN,)), ("create_trial", 0, None), ("set_iv", 0, 0, NAN)],
    # two RUNNING trials: per-study checks that look at "the other trials" (distribution
    # compatibility) must not depend on which of them was created first
    "two-running": [("create_study", "A", (MIN,)), ("create_trial", 0, None), ("create_trial", 0, None)],
    # an empty WAITING-filtered read moves the in-memory scan cursor past the RUNNING trial
    "polled": [("create_study", "A", (MIN,)), ("create_trial", 0, None), ("read_waiting", 0, False)],
    "param": [("create_study", "A", (MIN,)), ("create_trial", 0, None), ("set_param", 0, "p", "f", 0.5),
              ("create_trial", 0, None)],
}


def op_class(op: tuple, model: RefStorage) -> str:
    """Operation class for finding keys: name + class of target + class of argument."""
    name = op[0]
    if name == "create_study":
        return "create_study"
    if name in ("delete_study", "study_user_attr", "study_system_attr", "read_waiting", "read_all"):
        tgt = "live" if op[1] in model.studies else ("dead" if op[1] in model.dead_studies else "never")
        return f"{name}({tgt})"
    if name == "create_trial":
        tgt = "live" if op[1] in model.studies else ("dead" if op[1] in model.dead_studies else "never")
        return f"create_trial({tgt},{op[2]})"
    tid = op[1]
    if tid in model.trials:
        tgt = model.trials[tid]["state"].name
    elif tid in model.dead_trials:
        tgt = "dead"
    else:
        tgt = "never"
    if name == "set_state":
        return f"set_state({tgt}->{op[2].name},{'values' if op[3] is not None else 'None'})"
    if name == "set_param":
        return f"set_param({tgt},{op[3]})"
    return f"{name}({tgt})"


def explain(exp: Any, got: Any) -> str:
    """Which part of an observation differs (for finding keys)."""
    if isinstance(exp, tuple) and isinstance(got, tuple) and len(exp) == 2 and len(got) == 2:
        if exp[0] != got[0] or exp[0] != "ok":
            e = f"err:{exp[1]}" if exp[0] == "err" else exp[0]
            g = f"err:{got[1]}" if got[0] == "err" else got[0]
            return f"{e}->{g}"
        ev, gv = exp[1], got[1]
        if isinstance(ev, tuple) and isinstance(gv, tuple) and ev and isinstance(ev[0], tuple):
            # trial canon or tuple of trial canons
            if ev and isinstance(ev[0][0], str):
                ev, gv = (ev,), (gv,)
            if len(ev) != len(gv):
                return f"n_trials:{len(ev)}->{len(gv)}"
            for a, bb in zip(ev, gv):
                if a != bb:
                    fields = [x[0] for x, y in zip(a, bb) if x != y]
                    return "fields:" + ",".join(fields)
        return "value"
    return "value"


def run_history(config: str, history: list[tuple], obs_level: str, part: Part, check_from: int):
    """Replay `history` on a fresh backend; outcomes of ops with index >= check_from are compared,
    the observation is compared after the last op. Returns (status, state key, model, binding)
    with status 'ok' | 'diverged'."""
    backends.reset_uuid()
    env = Env(config)
    try:
        model = RefStorage()
        b = Binding()
        storage = env.storage
        for idx, op in enumerate(history):
            opc = op_class(op, model)
            if targets_retired(op, b):
                return "skipped", None, model, b
            mo, io = apply_op(op, model, storage, b)
            part.add("transitions")
            if idx < check_from:
                if mo != io:
                    return "diverged", None, model, b
                continue
            if mo != io:
                key = f"{cfg_class(config)}|op:{opc}|{explain(mo, io)}"
                part.violation(key, {"config": config, "history": history[: idx + 1], "failing_op": op,
                                     "expected": mo, "observed": io})
                # a pure return-value divergence with both sides 'ok' may leave states in sync; an
                # error on one side only means the states differ: stop.
                return "diverged", None, model, b
        om = observe_model(model, b, obs_level)
        oi = observe_impl(storage, model, b, obs_level)
        part.add("observations")
        part.add("getter_answers_compared", len(om))
        diffs = compare_obs(om, oi)
        if diffs:
            last = op_class(history[-1], _model_before(history)) if history else "init"
            seen = set()
            for k, e, g in diffs:
                key = f"{cfg_class(config)}|after:{last}|get:{clause_of(k)}|{explain(e, g)}"
                if key in seen:
                    continue
                seen.add(key)
                part.violation(key, {"config": config, "history": history, "getter": k,
                                     "expected": e, "observed": g})
            return "diverged", None, model, b
        skey = (repr(canon_value(_model_state(model))), env.digest())
        return "ok", skey, model, b
    finally:
        env.close()


def _model_before(history: list[tuple]) -> RefStorage:
    """Model state just before the last op (for op_class of the last op)."""
    from .sharness import apply_op as _ap

    m = RefStorage()
    bb = Binding()

    class _Null:
        def __getattr__(self, name):
            def f(*a, **k):
                if name == "create_new_study":
                    return len(bb.s_m2i)
                if name == "create_new_trial":
                    return len(bb.t_m2i)
                return None
            return f

    nul = _Null()
    for op in history[:-1]:
        try:
            _ap(op, m, nul, bb)
        except Exception:
            pass
    return m


def _model_state(model: RefStorage) -> Any:
    return {
        "studies": {sid: {k: (v if k != "param_dist" else {n: repr(d) for n, d in v.items()})
                          for k, v in s.items() if k != "directions"} | {"dirs": [d.name for d in s["directions"]]}
                    for sid, s in model.studies.items()},
        "trials": {tid: {k: (repr(v) if k in ("distributions", "dt_start", "dt_complete", "state") else v)
                         for k, v in t.items()} for tid, t in model.trials.items()},
        "dead": [sorted(model.dead_studies), sorted(model.dead_trials)],
        "next": [model.next_study, model.next_trial],
    }


def explore_task(task: tuple) -> dict:
    """One partition of one (config, seed, depth, alphabet size, observation level) exploration:
    breadth-first with state de-duplication below the seed prefix extended by the `first`-th
    operation of the alphabet (partitions are independent, so a state may be visited by several
    of them; that only costs time)."""
    config, seed_name, depth, size, obs_level, first = task
    backends.setup_determinism()
    part = Part()
    prefix = list(SEEDS[seed_name])
    seen: set = set()
    st, skey, model, b = run_history(config, prefix, obs_level, part, check_from=0 if first == 0 else len(prefix))
    if first == 0:
        part.add("histories")
    if st != "ok":
        return part.out()
    seen.add(skey)
    frontier = [prefix]
    maxd = 0
    for d in range(depth):
        nxt = []
        for hist in frontier:
            # rebuild the model to enumerate the alphabet (cheap)
            m = RefStorage()
            bb = Binding()
            _replay_model(hist, m, bb)
            ops = alphabet(m, bb, size)
            if d == 0:
                ops = ops[first:first + 1]
            for op in ops:
                h2 = hist + [op]
                st, skey, _, _ = run_history(config, h2, obs_level, part, check_from=len(hist))
                if st == "skipped":
                    continue
                part.add("histories")
                if st != "ok":
                    continue
                if skey in seen:
                    part.add("revisits")
                    continue
                seen.add(skey)
                maxd = max(maxd, d + 1)
                nxt.append(h2)
        frontier = nxt
        if d == depth - 1 and frontier:
            part.sample({"config": config, "seed": seed_name, "history": [repr(o) for o in frontier[len(frontier) // 2]]})
    part.add("states", len(seen) - (0 if first == 0 else 1))
    part.setmax("max_depth", len(prefix) + maxd)
    return part.out()


def n_first(seed_name: str, size: str) -> int:
    m = RefStorage()
    bb = Binding()
    _replay_model(SEEDS[seed_name], m, bb)
    return len(alphabet(m, bb, size))


def _replay_model(hist: list[tuple], m: RefStorage, bb: Binding) -> None:
    """Replay on the model only, binding model ids to themselves (the alphabet only needs to know
    which handles exist and which were retired - retirement is backend-specific and only ever
    shrinks the alphabet, so using the identity binding here keeps the alphabet a superset)."""
    for op in hist:
        try:
            if op[0] == "create_study":
                sid = m.create_new_study(list(op[2]), op[1])
                bb.bind_study(sid, sid)
            elif op[0] == "create_trial":
                from .sharness import template

                tmpl = None
                if op[2] is not None:
                    n_obj = len(m.studies[op[1]]["directions"]) if op[1] in m.studies else 1
                    tmpl = template(op[2], n_obj)
                tid = m.create_new_trial(op[1], tmpl)
                bb.bind_trial(tid, tid)
            elif op[0] == "delete_study":
                m.delete_study(op[1])
            elif op[0] in ("study_user_attr", "study_system_attr"):
                getattr(m, "set_" + op[0])(op[1], op[2], op[3])
            elif op[0] == "set_param":
                from .sharness import DISTS

                m.set_trial_param(op[1], op[2], op[4], DISTS[op[3]])
            elif op[0] == "set_state":
                m.set_trial_state_values(op[1], op[2], None if op[3] is None else list(op[3]))
            elif op[0] == "set_iv":
                m.set_trial_intermediate_value(op[1], op[2], op[3])
            elif op[0] in ("trial_user_attr", "trial_system_attr"):
                getattr(m, "set_" + op[0])(op[1], op[2], op[3])
        except Exception:
            pass


def plan(tier: str) -> list[tuple]:
    tasks = []

    def add(cfg, seed, depth, size, obs):
        for i in range(n_first(seed, size)):
            tasks.append((cfg, seed, depth, size, obs, i))

    deep = ["mem", "jlist", "jfile-sym", "grpc(mem)"]
    for cfg in backends.FAST:
        for seed in SEEDS:
            e = seed == "empty"
            if tier == "quick":
                if cfg in deep:
                    add(cfg, seed, 3 if e else 2, "full", "full")
                else:
                    add(cfg, seed, 2 if e else 1, "full", "full")
            elif cfg == "mem":
                add(cfg, seed, 4 if e else 3, "full", "full")
            elif cfg in deep:
                add(cfg, seed, 4 if e else 3, "small", "full")
            else:
                add(cfg, seed, 3 if e else 2, "full", "full")
    for cfg in backends.SLOW:
        for seed in SEEDS:
            e = seed == "empty"
            if tier == "quick":
                add(cfg, seed, 2 if e else 1, "small", "light")
            else:
                add(cfg, seed, 3 if e else 2, "small", "light")
    return tasks


def replay_case(raw: dict, part: Part) -> None:
    """Plain re-execution of one history on one configuration (no explorer)."""
    backends.setup_determinism()
    backends.sqlite_template()
    run_history(raw["config"], list(raw["history"]), "full", part, 0)


def run(tier: str, replay: str | None = None) -> int:
    backends.setup_determinism()
    ctx = Ctx(PID, tier, "model_checking")
    only = os.environ.get("VF_CONFIGS")
    backends.sqlite_template()
    tasks = plan(tier)
    if only:
        tasks = [t for t in tasks if t[0] in only.split(",")]
    # determinism self-test: one non-trivial history twice, identical state keys
    p = Part()
    h = SEEDS["wait-run-fin"] + [("set_state", 0, S.RUNNING, None)]
    k1 = run_history("jfile-sym", h, "full", p, 0)[1]
    k2 = run_history("jfile-sym", h, "full", p, 0)[1]
    if k1 != k2:
        from .core import InternalError

        raise InternalError("replaying one history twice gave different state keys")
    pmap(ctx, explore_task, tasks, chunksize=4)
    ctx.cov["configs"] = sorted({t[0] for t in tasks})
    ctx.cov["traces_validated_against_impl"] = ctx.cov.get("histories", 0)
    ctx.assumptions += [
        "RDB means SQLite on /dev/shm; MySQL/PostgreSQL are not installed",
        "gRPC transport is the in-process stub (real servicer, client and protobuf wire encoding; no sockets)",
        "Redis is fakeredis (with Lua through lupa)",
        "datetimes compared by None-ness except template datetimes (exact)",
        "writes to WAITING trials other than state, double set_trial_param of one name on one trial, and JSON-incompatible values are outside the alphabet (contract preconditions)",
    ]
    backends.cleanup_root()
    return ctx.finish(
        exhaustive=True,
        rule="every history up to the depth bound per (configuration, seeded non-initial state), de-duplicated on (model state, implementation digest)",
        extra={"bounds": {"quick": "fast backends: depth 3 from empty, 2 from 11 seeded states (full alphabet, full observation); SQLite-backed: depth 2 / 1 (small alphabet, light observation)",
                          "thorough": "mem: depth 4 / 3 full alphabet; jlist, jfile-sym, grpc(mem): 4 / 3 small alphabet; other fast: 3 / 2 full; SQLite-backed: 3 / 2 small alphabet, light observation"}[tier]},
    )


if __name__ == "__main__":
    main_wrapper(run)
