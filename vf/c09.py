"""C09 - optimisation is reproducible from the seed and independent of the storage.

seqx, differential enumeration over a finite configuration product: sampler x pruner x
define-by-run program x seed x storage backend (incl. gRPC proxy, storages that already hold another
study with trials so that trial ids are offset) x split of the 10 trials into several optimize
calls. Oracle: the sequence of (params, intermediate values, state, values) equals the single-call
in-memory run with the same seed; a repeated run is identical; copy_study reproduces every field.
"""
from __future__ import annotations

import itertools
import math
import os
from typing import Any, Callable

import optuna
from optuna.trial import TrialState

from . import backends
from .backends import Env
from .canon import canon_value
from .core import Ctx, InternalError, Part, main_wrapper, pmap
from .sharness import trial_canon

PID = "C09"
N_TRIALS = 10


# ---------------------------------------------------------------------------------------------
# programs: deterministic define-by-run objectives
# ---------------------------------------------------------------------------------------------
def p_plain(t):
    x = t.suggest_float("x", 0, 1)
    y = t.suggest_int("y", 0, 4)
    return (x - 0.3) ** 2 + y / 8


def p_cond(t):
    c = t.suggest_categorical("c", ["a", "b"])
    if c == "a":
        x = t.suggest_float("x", -1, 1)
        return x * x
    z = t.suggest_int("z", 1, 8, log=True)
    return 0.1 + z / 10


def p_report(t):
    x = t.suggest_float("x", 0, 1)
    k = t.suggest_int("k", 1, 3)
    v = 0.0
    for step in range(4):
        v = abs(x - 0.5) * (4 - step) + k / 10
        t.report(v, step)
        if t.should_prune():
            raise optuna.TrialPruned()
    return v


def p_sparse(t):
    """Reports at sparse steps (containers that lose insertion order must not matter)."""
    x = t.suggest_float("x", 0, 1)
    v = 0.0
    for step in (0, 10, 20, 30, 50, 70):
        # every other trial deteriorates late, so that trials are pruned after five or six reports
        v = abs(x - 0.5) + (2.0 if (t.number % 2 == 1 and step >= 50) else 0.0) + step / 1000
        t.report(v, step)
        if t.should_prune():
            raise optuna.TrialPruned()
    return v


def p_fail(t):
    x = t.suggest_float("x", 0, 1)
    if t.number == 2:
        raise ValueError("boom")
    return x


def p_mixed(t):
    a = t.suggest_float("a", 0, 1, step=0.25)
    b = t.suggest_int("b", 0, 6, step=2)
    c = t.suggest_categorical("c", [None, True, "s"])
    return a + b / 10 + (0.5 if c is None else 0.0)


def p_log(t):
    x = t.suggest_float("x", 1e-3, 1e3, log=True)
    return abs(math.log10(x))


def p_dynamic(t):
    x = t.suggest_float("x", 0, 1 + (t.number % 2))
    y = t.suggest_float("y", 0, 1)
    return x + y


def p_multi(t):
    x = t.suggest_float("x", 0, 1)
    y = t.suggest_float("y", 0, 1)
    return x + y, (x - 1) ** 2 + y


def p_multi_cond(t):
    x = t.suggest_float("x", 0, 1)
    if x > 0.5:
        z = t.suggest_int("z", 0, 3)
        return x, z / 3
    return x, 1 - x


def p_finite(t):
    a = t.suggest_int("a", 0, 2)
    if a == 1:
        b = t.suggest_categorical("b", ["u", "v"])
        return a + (0.5 if b == "u" else 0.25)
    c = t.suggest_float("c", 0, 1, step=0.5)
    return a + c


def p_tied(t):
    """Instance-wise losses reported step by step, final value quantised to multiples of 1/2: several
    COMPLETE trials tie exactly for the best value while their per-step values differ (the
    WilcoxonPruner compares the running trial with study.best_trial: WHICH of the tied trials is
    'best' must not depend on the storage)."""
    x = t.suggest_float("x", 0, 1)
    vals = [abs(x - 0.5) + ((t.number * 7 + i * 3) % 5) / 10 for i in range(8)]
    for i, v in enumerate(vals):
        t.report(v, i)
        if t.should_prune():
            raise optuna.TrialPruned()
    return round(sum(vals) / len(vals) * 2) / 2


def p_nan_grid(t):
    """Grid whose values include NaN (supported by GridSampler): after a JSON round trip the stored
    NaN is another object than the sampler's own."""
    x = t.suggest_categorical("x", [0.5, float("nan")])
    y = t.suggest_categorical("y", [1, 2, 3])
    return (10.0 if x != x else x) + y


PROGRAMS: dict[str, tuple[Callable, int, bool, dict | None]] = {
    # name: (objective, n objectives, finite?, grid)
    "plain": (p_plain, 1, False, None),
    "cond": (p_cond, 1, False, None),
    "report": (p_report, 1, False, None),
    "sparse": (p_sparse, 1, False, None),
    "fail": (p_fail, 1, False, None),
    "mixed": (p_mixed, 1, True, {"a": [0.0, 0.5, 1.0], "b": [0, 2, 6], "c": [None, True, "s"]}),
    "log": (p_log, 1, False, None),
    "dynamic": (p_dynamic, 1, False, None),
    "multi": (p_multi, 2, False, None),
    "multi_cond": (p_multi_cond, 2, False, None),
    "finite": (p_finite, 1, True, None),
    "tied": (p_tied, 1, False, None),
    # 6 cells < 10 trials: the sampler has to recognise its own visited cells and stop the run
    "nan_grid": (p_nan_grid, 1, False, {"x": [0.5, float("nan")], "y": [1, 2, 3]}),
}


def make_sampler(name: str, seed: int, prog: str) -> Any:
    s = optuna.samplers
    if name == "Random":
        return s.RandomSampler(seed=seed)
    if name == "TPE":
        return s.TPESampler(seed=seed, n_startup_trials=3)
    if name == "TPE-mv":
        return s.TPESampler(seed=seed, n_startup_trials=3, multivariate=True, group=True, constant_liar=True)
    if name == "NSGAII":
        return s.NSGAIISampler(seed=seed, population_size=3)
    if name == "NSGAIII":
        return s.NSGAIIISampler(seed=seed, population_size=3)
    if name == "QMC":
        return s.QMCSampler(seed=seed, scramble=True)
    if name == "BruteForce":
        return s.BruteForceSampler(seed=seed)
    if name == "Grid":
        return s.GridSampler(PROGRAMS[prog][3], seed=seed)
    if name == "GP":
        return s.GPSampler(seed=seed, n_startup_trials=3)
    raise ValueError(name)


def make_pruner(name: str) -> Any:
    p = optuna.pruners
    return {
        "Nop": lambda: p.NopPruner(),
        "Median": lambda: p.MedianPruner(n_startup_trials=2, n_warmup_steps=0),
        "Percentile": lambda: p.PercentilePruner(25.0, n_startup_trials=2),
        "SHA": lambda: p.SuccessiveHalvingPruner(),
        "Hyperband": lambda: p.HyperbandPruner(min_resource=1, max_resource=4, reduction_factor=2),
        "Patient": lambda: p.PatientPruner(p.MedianPruner(n_startup_trials=2), patience=1),
        "Wilcoxon": lambda: p.WilcoxonPruner(p_threshold=0.3, n_startup_steps=2),
    }[name]()


SAMPLERS = ["Random", "TPE", "TPE-mv", "NSGAII", "NSGAIII", "QMC", "BruteForce", "Grid"]
PRUNERS = ["Nop", "Median", "Percentile", "SHA", "Hyperband", "Patient", "Wilcoxon"]


def compatible(sampler: str, prog: str, pruner: str) -> bool:
    obj, n_obj, finite, grid = PROGRAMS[prog]
    if sampler == "BruteForce" and not finite:
        return False
    if sampler == "Grid" and grid is None:
        return False
    if prog == "nan_grid" and sampler != "Grid":
        return False  # NaN as a categorical choice is only claimed for the grid sampler
    if n_obj > 1 and pruner != "Nop":
        return False  # pruning is not supported for multi-objective studies
    if (pruner == "Wilcoxon") != (prog == "tied"):
        return False  # the instance-wise pruner goes with the instance-wise program (and only with it)
    if prog not in ("report", "sparse", "tied") and pruner != "Nop":
        return False  # pruners only matter to the program that reports
    if sampler == "GP" and (n_obj > 1 and False):
        return False
    return True


def signature(study: Any) -> list:
    out = []
    for t in study.get_trials(deepcopy=False):
        out.append((t.number, t.state.name, canon_value(dict(t.params)), canon_value(dict(t.intermediate_values)),
                    None if t.values is None else canon_value(list(t.values))))
    return out


def run_one(storage_cfg: str, sampler: str, pruner: str, prog: str, seed: int, split: tuple) -> tuple[Any, str | None]:
    """Returns (signature, error)."""
    obj, n_obj, finite, grid = PROGRAMS[prog]
    preload = storage_cfg.endswith("+other")
    cfg = storage_cfg[:-6] if preload else storage_cfg
    env = Env(cfg)
    try:
        if preload:
            other = optuna.create_study(storage=env.storage, study_name="other", sampler=optuna.samplers.RandomSampler(seed=99))
            other.optimize(lambda t: t.suggest_float("w", 0, 1), n_trials=3)
            other.enqueue_trial({"w": 0.5})
        study = optuna.create_study(storage=env.storage, study_name="c09", directions=["minimize"] * n_obj,
                                    sampler=make_sampler(sampler, seed, prog), pruner=make_pruner(pruner))
        err = None
        try:
            for n in split:
                if n == "E":
                    # a point queued between two optimize calls must be the next trial on every storage
                    study.enqueue_trial(ENQUEUE[prog])
                    continue
                study.optimize(obj, n_trials=n, catch=(ValueError,))
        except Exception as e:
            err = f"{type(e).__name__}: {str(e)[:120]}"
        return signature(study), err
    finally:
        env.close()


STORAGES_FAST = ["mem+other", "jfile-sym", "jfile-sym+other", "grpc(mem)", "grpc(mem)+other"]
STORAGES_SLOW = ["cached", "cached+other", "grpc(cached)"]
SPLITS = [(10,), (4, 6), (1, 9), (3, 3, 4)]
# programs for which a queued point is defined: run = 3 trials, enqueue, 7 trials
ENQUEUE = {"plain": {"x": 0.5, "y": 2}, "report": {"x": 0.5, "k": 2}, "sparse": {"x": 0.25}, "multi": {"x": 0.5, "y": 0.5},
           "log": {"x": 1.0}, "mixed": {"a": 0.5, "b": 2, "c": None}}
ENQ_SPLIT = (3, "E", 7)


def first_diff(a: list, b: list) -> Any:
    for x, y in zip(a, b):
        if x != y:
            fields = [n for n, u, v in zip(("number", "state", "params", "intermediate", "values"), x, y) if u != v]
            return {"trial": x[0], "fields": fields, "reference": x, "observed": y}
    return {"length": (len(a), len(b))}


def task_fn(task: tuple) -> dict:
    sampler, pruner, prog, seed, storages = task
    backends.setup_determinism()
    part = Part()
    ref, err = run_one("mem", sampler, pruner, prog, seed, (N_TRIALS,))
    part.add("transitions", len(ref))
    base = {"sampler": sampler, "pruner": pruner, "program": prog, "seed": seed}
    if err is not None:
        part.violation(f"{sampler}|mem|reference-run-raises|{err.split(':')[0]}", dict(base, error=err))
        return part.out()
    again, _ = run_one("mem", sampler, pruner, prog, seed, (N_TRIALS,))
    part.add("evaluations")
    if again != ref:
        part.violation(f"{sampler}|mem|not-reproducible-from-seed", dict(base, diff=first_diff(ref, again)))
    n_pruned = sum(1 for t in ref if t[1] == "PRUNED")
    if n_pruned:
        part.add("runs_with_pruning")
    for split in SPLITS[1:]:
        got, e = run_one("mem", sampler, pruner, prog, seed, split)
        part.add("evaluations")
        part.add("transitions", len(got))
        if e is not None:
            part.violation(f"{sampler}|mem|split-run-raises|{e.split(':')[0]}", dict(base, split=split, error=e))
        elif got != ref and not (sampler in ("BruteForce", "Grid") and len(got) <= len(ref) and got == ref[:len(got)]) \
                and not (sampler == "Grid" and len(ref) < N_TRIALS and got[:len(ref)] == ref and len(got) <= len(ref) + len(split) - 1):
            # (an exhausted grid re-evaluates one cell per further optimize call: documented)
            part.violation(f"{sampler}|{pruner}|depends-on-split-into-optimize-calls", dict(base, split=split, diff=first_diff(ref, got)))
    if prog in ENQUEUE and sampler not in ("Grid", "BruteForce"):
        ref_e, err_e = run_one("mem", sampler, pruner, prog, seed, ENQ_SPLIT)
        part.add("evaluations")
        if err_e is None:
            for st in storages:
                got, e = run_one(st, sampler, pruner, prog, seed, ENQ_SPLIT)
                part.add("evaluations")
                part.add("transitions", len(got))
                cls = st.replace("+other", "") + ("|ids-offset" if st.endswith("+other") else "")
                if e is not None:
                    part.violation(f"{sampler}|{cls}|run-with-enqueue-raises|{e.split(':')[0]}", dict(base, storage=st, error=e))
                elif got != ref_e:
                    d = first_diff(ref_e, got)
                    part.violation(f"{sampler}|{cls}|enqueue-between-optimize-calls|differs-from-in-memory-run|{','.join(d.get('fields', ['length']))}",
                                   dict(base, storage=st, split=ENQ_SPLIT, diff=d))
    for st in storages:
        got, e = run_one(st, sampler, pruner, prog, seed, (N_TRIALS,))
        part.add("evaluations")
        part.add("transitions", len(got))
        cls = st.replace("+other", "") + ("|ids-offset" if st.endswith("+other") else "")
        if e is not None:
            part.violation(f"{sampler}|{cls}|run-raises|{e.split(':')[0]}", dict(base, storage=st, error=e))
        elif got != ref:
            d = first_diff(ref, got)
            part.violation(f"{sampler}|{cls}|differs-from-in-memory-run|{','.join(d.get('fields', ['length']))}",
                           dict(base, storage=st, diff=d))
    part.add("states")
    part.sample(dict(base, trials=len(ref), pruned=n_pruned), cap=1)
    return part.out()


def copy_task(task: tuple) -> dict:
    _, src, dst = task
    backends.setup_determinism()
    part = Part()
    e1, e2 = Env(src), Env(dst)
    try:
        study = optuna.create_study(storage=e1.storage, study_name="src", sampler=optuna.samplers.RandomSampler(seed=0),
                                    pruner=make_pruner("Median"))
        study.set_user_attr("ua", {"k": [1, None]})
        study.set_system_attr("sa", [1.5])
        study.optimize(p_report, n_trials=6)
        study.enqueue_trial({"x": 0.5}, user_attrs={"q": 1})
        t = study.ask()
        t.suggest_float("x", 0, 1)
        t.set_user_attr("u", "v")
        study.add_trial(optuna.trial.create_trial(state=TrialState.FAIL, params={"x": 0.1},
                                                  distributions={"x": optuna.distributions.FloatDistribution(0, 1)}))
        optuna.copy_study(from_study_name="src", from_storage=e1.storage, to_storage=e2.storage, to_study_name="dst")
        a = optuna.load_study(study_name="src", storage=e1.storage)
        b = optuna.load_study(study_name="dst", storage=e2.storage)
        part.add("evaluations")
        part.add("states")

        def canon(s: Any) -> Any:
            return ([tuple(x for x in trial_canon(t, None) if x[0] != "id") for t in s.get_trials(deepcopy=False)],
                    canon_value(s.user_attrs), canon_value(s.system_attrs), [d.name for d in s.directions])

        ca, cb = canon(a), canon(b)
        if ca != cb:
            which = "trials" if ca[0] != cb[0] else "study-attrs"
            part.violation(f"copy_study|{src}->{dst}|{which}-differ", {"from": src, "to": dst})
        part.add("transitions", len(ca[0]))
    finally:
        e1.close()
        e2.close()
    return part.out()


def replay_case(raw: dict, part: Part) -> None:
    backends.setup_determinism()
    backends.sqlite_template()
    if "sampler" in raw:
        sts = (raw["storage"],) if "storage" in raw else ()
        task_fn((raw["sampler"], raw["pruner"], raw["program"], raw["seed"], sts))["viol"]
        out = task_fn((raw["sampler"], raw["pruner"], raw["program"], raw["seed"], sts))
    else:
        out = copy_task(("copy", raw["from"], raw["to"]))
    for k, v in out["viol"].items():
        part.violation(k, raw)


def run(tier: str, replay: str | None = None) -> int:
    backends.setup_determinism()
    ctx = Ctx(PID, tier, "model_checking")
    backends.sqlite_template()
    tasks: list = []
    samplers = SAMPLERS + (["GP"] if tier == "thorough" else [])
    for sampler in samplers:
        for prog in PROGRAMS:
            for pruner in PRUNERS:
                if not compatible(sampler, prog, pruner):
                    continue
                for seed in (0, 1):
                    if sampler == "GP" and (seed == 1 or prog not in ("plain", "mixed", "multi")):
                        continue
                    storages = list(STORAGES_FAST)
                    if tier == "thorough" or (seed == 0 and prog in ("plain", "report", "sparse", "multi") and pruner in ("Nop", "Median")):
                        storages += STORAGES_SLOW
                    if sampler == "GP":
                        storages = ["jfile-sym+other", "grpc(mem)"]
                    tasks.append((sampler, pruner, prog, seed, tuple(storages)))
    for t in tasks:
        pass
    cfgs = ["mem", "jfile-sym", "cached", "grpc(mem)", "jredis"]
    copy_tasks = [("copy", a, b) for a in cfgs for b in cfgs]
    pmap(ctx, task_fn, tasks)
    pmap(ctx, copy_task, copy_tasks)
    ctx.cov["traces_validated_against_impl"] = ctx.cov.get("evaluations", 0)
    ctx.assumptions += [
        "sequential optimize; deterministic objectives; 10 trials per run",
        "RDB = SQLite; gRPC = in-process stub; pre-existing study with 4 trials shifts trial ids on '+other' storages",
        "BruteForce/Grid may stop early by themselves: a split run that is a prefix-equal shorter run is accepted; an exhausted grid re-evaluates one cell per further optimize call (documented): a split run of an exhausted grid may be longer by at most that",
        "CMA-ES is not installed; GP only in the thorough tier",
    ]
    backends.cleanup_root()
    return ctx.finish(
        exhaustive=True,
        rule="full product sampler(8; +GP thorough) x pruner(6, on the reporting program) x program(10) x seed{0,1} x storages x splits{10, 4+6, 1+9, 3+3+4}; copy_study over all ordered pairs of 5 backends; states = configurations",
    )


if __name__ == "__main__":
    main_wrapper(run)
