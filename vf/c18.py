"""C18 - TPE's numerical kernels agree with the reference distributions.

Bounded-exhaustive enumeration of a finite argument lattice built from the branch points visible
in optuna/samplers/_tpe/{_truncnorm,_erf,probability_distributions}.py, compared with SciPy
(scipy.stats.truncnorm, scipy.special.{erf,ndtr,log_ndtr,ndtri_exp}) as the trusted reference.
Nothing is claimed off the lattice.

Branch points found in the code (lattice values sit on, 1 ulp beside and 1e-8 beside each, both signs):
  _log_gauss_mass : b <= 0 | a > 0 | central               -> 0
  ppf             : a < 0 (ppf_left) | a >= 0 (ppf_right)  -> 0
  _log_ndtr_single: a > 6 | a > -20 | asymptotic series    -> 6, 20
  _ndtr_single    : x=a/sqrt2 < -1/sqrt2 | < 1/sqrt2       -> 1
  _ndtr (central) : erf(a/sqrt2), erf's switch points 2**-28, 0.84375, 1.25, 1/0.35, 6 times sqrt2
  _ndtri_exp      : bisection bracket [-100, 100]          -> 100 (the stated 1e2-sigma limit)
  erf             : |x| in {2**-28, 0.84375, 1.25, 1/0.35, 6}
plus the values named by the property (1e-8, 1e-3, 8, 40, 100) and fillers between the switch
points (0.3, 3, 5, 12, 30, 37, 38.6 [just above the erfc underflow at 38.5], 60, 99) so that a
*moved* switch lands between two lattice values.

MUTATIONS the check must catch (M1..M5 all verified by hand on a scratch copy of optuna, quick
tier; the violation keys seen are listed, "..." stands for the regime part of the key):
  M1 _truncnorm._log_ndtr_single: `if a > -20` -> `if a > -40`  (moved switch; log(0) below -38.5)
       -> "truncnorm.{ppf,logpdf,rvs,_log_gauss_mass,_log_ndtr,_ndtri_exp}|...|exception:ValueError",
          "mixture.log_pdf|kinds=D ...|exception:ValueError"
  M2 _truncnorm._log_gauss_mass: the `out[case_central] = mass_case_central(...)` assignment dropped
     (central intervals keep the NaN fill value)
       -> "truncnorm._log_gauss_mass|central...|nan", "truncnorm.logpdf|central...|nan",
          "truncnorm.ppf|...|outside-interval(gross),...", "mixture.log_pdf|...|nan",
          "mixture.sample|...|outside-domain(T)"
     (replacing the central formula by the older log-sum of the two half masses is NOT detectable
     and not a defect at the stated log-scale tolerance: it differs by ~1e-16 absolute)
  M3 _truncnorm._bisect: `range(100)` -> `range(30)`  (bisection stops at 2e-7 resolution)
       -> "truncnorm.ppf|...narrow|outside-interval(small),...", "truncnorm.ppf|...|abs-err,...",
          "truncnorm.rvs|...|abs-err", "truncnorm._ndtri_exp|-20<x<=6|rel-err"
  M4 _erf.py: pa1 = 4.14856118683748331666e-01 -> 4.14856118684748331666e-01 (12th digit)
       -> "erf|0.84375<=|x|<1.25|rel-err", "erf|lattice|non-monotone", "truncnorm._ndtr|-20<z<=6|abs-err"
     (slips below ~1e-13 relative in a coefficient, or in the erfc-range coefficients rb*, do not
     change erf() beyond rounding and are equivalent mutants: rb6 9th digit -> nothing, verified)
  M5 _truncnorm.ppf.ppf_right: `return -_ndtri_exp(...)` -> `return _ndtri_exp(...)` (sign slip)
       -> "truncnorm.ppf|ppf-right,...|outside-interval(gross),...", "truncnorm.rvs|...|outside-interval",
          "mixture.sample|...|outside-domain(T)"

TOLERANCES (measured on the unmodified tree over the thorough lattice; tolerance >= ~100x the
measured maximum and never looser than 1e-6 relative in the bulk; the measured maxima of every run
are in the evidence as max_err_*; max_err_*_over_tol is error/tolerance and must stay << 1):
  erf                : rel 2e-14                       (measured 1.5e-16)
  _ndtr              : abs 1e-13                       (measured 1.1e-16; it is 0.5+0.5*erf, abs only)
  _log_ndtr          : abs 1e-9*max(1,|v|)             (measured 4.2e-16*max(1,|v|))
  _ndtri_exp         : 1e-6*max(|x|,1e-6), for y <= log(Phi(6))  (measured 1.4e-9; above that Phi(x)
                       is within 1e-9 of 1 and x is not determined by log Phi(x) in doubles - both
                       implementations share this)
  _log_gauss_mass    : abs tol_log(w)*max(1,|v|), tol_log(w) = max(1e-9, 1e-14/w), w = b-a
                       (cancellation log Phi(b) - log Phi(a) on narrow intervals loses ~eps*|v|/w in
                       *both* implementations; measured 4.7e-9 at w=1e-8, 5.5e-11 at w=1e-6,
                       6.2e-13 for w >= 1e-5: error/tolerance <= 0.0055)
  logpdf             : abs tol_log(w)*max(1,|log mass|) + 1e-9*max(1,|v|)   (error/tolerance <= 0.0047)
  ppf, rvs           : |ours-scipy| <= max(1e-6*min(w, max(1,|x|)), 1024*eps*max(1,|x|))
                       (measured: 2.7e-9*min(w, max(1,|x|)) for w >= 0.1, 7 ulp on narrower ones;
                       error/tolerance <= 0.0068); not compared where a < 0 and SciPy's x > 6
                       (ill-conditioned, counted as excluded_ill_conditioned)
  containment        : ppf/rvs in [a - s(a), b + s(b)], s(e) = max(64*eps*max(1,|e|),
     and monotonicity  1e-6*min(w, max(1,|e|))); the excursions measured on the unmodified tree are
                       <= 10 ulp = 0.031 s (SciPy has the same ones); they are counted as
                       `ppf_outside_strict_within_slack` and noted, not reported
  integral           : |int exp(logpdf) - 1| <= max(1e-6, 1e-12/w)  (measured 9.6e-11 for w >= 1e-5,
                       2.4e-7 at w = 1e-8: error/tolerance <= 0.0037), only where the same quadrature
                       of SciPy's logpdf gives 1 within 1e-9 (1e-3 of the tolerance), else counted as
                       excluded_quadrature_untrusted (narrow far-tail intervals where SciPy's own
                       normaliser is off by up to 1.7e-6)
  mixture log_pdf    : abs 1e-9*max(1,|v|)             (measured 1.9e-14)
  batched shapes     : bitwise equal to scalar calls (tolerance 0)
SciPy's own failures (nan, +-inf, value outside [a,b] beyond the slack) are excluded and counted as
`excluded_scipy_degenerate`.

FINDINGS on the unmodified tree (genuine, kept reported; failure class names the root cause):
  F1 `_ndtri_exp` bisects in the fixed bracket [-100, 100]; for a one-sided interval whose quantile lies
     beyond it the swap `if f(a) > c: a, b = b, a` makes it converge to the *other* end:
     ppf(0.5, -inf, -100.0) = +100.0, ppf(0.5, 100.0, inf) = -100.0 (so rvs samples fall outside),
     also ppf(1e-300, -inf, -99.0) = +100.0.   keys: "...|outside-interval(x-beyond-bisection-bracket)..."
  F2 ppf_left with a a hair below 0 (Phi(a) = 0.5) and q = 1-2**-53: log Phi(x) rounds to exactly 0 and
     the bisection returns 38.475 (where erfc underflows) whatever b is:
     ppf(1-2**-53, -1e-8, 9.0) = 38.475 > b.   key: "...|outside-interval(logPhi-rounds-to-0),q>=1-1e-16"
"""
from __future__ import annotations

import itertools
import json
import math
import warnings
from typing import Any

import numpy as np

from .core import Ctx, Part, pmap, main_wrapper

PID = "C18"
EPS = 2.0 ** -52
R2 = math.sqrt(2.0)
INF = math.inf

# ---- stated tolerances -------------------------------------------------------------------------
TOL_ERF_REL = 2e-14
TOL_NDTR_ABS = 1e-13
TOL_LOG = 1e-9
TOL_NDTRI_REL = 1e-6
TOL_X_REL = 1e-6
TOL_X_ULP = 1024 * EPS
SLACK_ULP = 64 * EPS
SLACK_REL = 1e-6
TOL_INT = 1e-6
TOL_INT_TRUST = 1e-9
TOL_MIX = 1e-9
X_ILL = 6.0  # left branch (a<0): SciPy's quantile above this is not compared (ill-conditioned)

Q_LATTICE = [0.0, 1e-300, 1e-16, 1e-8, 0.1, 0.5, 0.9, 1 - 1e-8, 1 - 1e-16, 1.0]
LOCS = [0.0, 5.0, -5.0]
SCALES = [1.0, 1e-8, 1e8]
LOCSCALE = [(l, s) for l in LOCS for s in SCALES]
QUAD_LOCSCALE = [(0.0, 1.0), (0.0, 1e-8), (-5.0, 1e8), (5.0, 1.0)]

SWITCH = [1.0, 6.0, 20.0, 0.84375 * R2, 1.25 * R2, R2 / 0.35, 6 * R2]
WIDTHS = {"thorough": [1e-8, 1e-6, 1e-4, 1e-2, 1.0, 10.0, 100.0, 200.0], "quick": [1e-8, 1e-4, 1.0, 200.0]}


def _setup() -> None:
    warnings.filterwarnings("ignore")
    np.seterr(all="ignore")


def _mods():
    _setup()
    from optuna.samplers._tpe import _erf, _truncnorm, probability_distributions as pd
    import scipy.special as sp
    import scipy.stats as st

    return _truncnorm, _erf, pd, sp, st


# ---- the lattice ---------------------------------------------------------------------------------
def lattice_values(tier: str) -> list[float]:
    pos = {1e-8, 1e-3, 8.0, 40.0, 100.0, 2.0 ** -28 * R2}
    pos.update([0.3, 3.0, 5.0, 12.0, 30.0, 37.0, 38.6, 60.0, 99.0] if tier == "thorough" else [3.0, 30.0, 38.6])
    for s in SWITCH:
        pos.add(s)
        pos.update([float(np.nextafter(s, INF)), float(np.nextafter(s, -INF))])
        if tier == "thorough" or s in (1.0, 6.0, 20.0):
            pos.update([s + 1e-8, s - 1e-8])
    v = sorted(pos)
    return [-x for x in reversed(v)] + [0.0] + v


def lattice_intervals(tier: str) -> list[tuple[float, float]]:
    """All a < b over the value lattice with b - a >= 1e-8 (narrower is outside the property's
    quantifier), every lattice value extended by every lattice width on both sides (inside
    [-100, 100]), and all one-sided / unbounded intervals."""
    vs = lattice_values(tier)
    out: set[tuple[float, float]] = set()
    for i, a in enumerate(vs):
        for b in vs[i + 1:]:
            if b - a >= 0.99e-8:
                out.add((a, b))
        for w in WIDTHS[tier]:
            if a + w <= 100.0 and (a + w) - a >= 0.99e-8:
                out.add((a, a + w))
            if a - w >= -100.0 and a - (a - w) >= 0.99e-8:
                out.add((a - w, a))
        out.add((a, INF))
        out.add((-INF, a))
    out.add((-INF, INF))
    return sorted(out)


def regime(a: float, b: float) -> str:
    """Regime class used in finding keys: _log_gauss_mass case, tail depth, width class."""
    if b <= 0:
        case, m = "left(b<=0)", abs(b)
    elif a > 0:
        case, m = "right(a>0)", abs(a)
    else:
        case, m = "central(a<=0<b)", 0.0
    depth = "m<=6" if m <= 6 else ("6<m<=20" if m <= 20 else "m>20")
    if math.isinf(a) and math.isinf(b):
        wc = "unbounded"
    elif math.isinf(a) or math.isinf(b):
        wc = "one-sided"
    else:
        wc = "narrow" if b - a < 1e-5 else "wide"
    return f"{case} {depth} {wc}"


def qclass(q: float) -> str:
    if q <= 1e-16:
        return "q<=1e-16"
    if q >= 1 - 1e-15:
        return "q>=1-1e-16"
    return "q-mid"


def tol_log(w):
    """Relative-to-max(1,|v|) tolerance on a log mass / log density of an interval of width w."""
    w = np.asarray(w, dtype=float)
    return np.maximum(TOL_LOG, 1e-14 / np.where(np.isfinite(w), w, 1.0))


def slack(e, w):
    """Containment slack at a finite endpoint e of an interval of width w (w may be inf)."""
    e = np.abs(np.where(np.isfinite(e), e, 0.0))
    m = np.maximum(1.0, e)
    return np.maximum(SLACK_ULP * m, SLACK_REL * np.minimum(w, m))


def tol_x(ref, w):
    m = np.maximum(1.0, np.abs(ref))
    return np.maximum(TOL_X_REL * np.minimum(w, m), TOL_X_ULP * m)


def _f(x: Any) -> Any:
    """numpy scalars -> python floats for replay dicts."""
    if isinstance(x, (np.floating, np.integer)):
        return x.item()
    if isinstance(x, np.ndarray):
        return [_f(v) for v in x.tolist()]
    if isinstance(x, (list, tuple)):
        return [_f(v) for v in x]
    if isinstance(x, dict):
        return {k: _f(v) for k, v in x.items()}
    return x


def call_vec(fn, arrays: list[np.ndarray]) -> tuple[np.ndarray, dict[int, str]]:
    """fn over equal-length 1-d arrays. If the vectorised call raises, fall back to element-wise
    calls so that the raising argument tuples are identified (value nan, exception recorded)."""
    try:
        out = np.asarray(fn(*arrays), dtype=float)
        if out.shape != arrays[0].shape:
            raise ValueError(f"shape {out.shape} != {arrays[0].shape}")
        return out, {}
    except Exception:
        out = np.full(arrays[0].shape, np.nan)
        exc: dict[int, str] = {}
        for i in range(arrays[0].shape[0]):
            try:
                out[i] = np.asarray(fn(*[a[i:i + 1] for a in arrays]), dtype=float).reshape(-1)[0]
            except Exception as e:  # noqa: PERF203
                exc[i] = f"{type(e).__name__}: {e}"
        return out, exc


def _setmax(part: Part, key: str, v: float) -> None:
    if np.isfinite(v):
        part.setmax("max_" + key, float(v))


# ---- reference pieces ----------------------------------------------------------------------------
def ref_log_gauss_mass(a, b):
    """log(Phi(b) - Phi(a)) from scipy (private helper of scipy.stats.truncnorm; if it moves, the
    public identity truncnorm.logpdf(x0) = norm.logpdf(x0) - log_mass is used instead)."""
    a = np.asarray(a, dtype=float)
    b = np.asarray(b, dtype=float)
    try:
        from scipy.stats._continuous_distns import _log_gauss_mass

        return np.asarray(_log_gauss_mass(a, b), dtype=float)
    except Exception:  # pragma: no cover
        import scipy.stats as st

        x0 = np.clip(0.0, a, b)
        return st.norm.logpdf(x0) - st.truncnorm.logpdf(x0, a, b)


# ---- checkers (each takes explicit argument tuples so that a replay can call it with one) -------
def check_erf(part: Part, xs: np.ndarray) -> None:
    T, E, pd, sp, st = _mods()
    xs = np.asarray(xs, dtype=float)
    ours, exc = call_vec(E.erf, [xs])
    ref = sp.erf(xs)
    for i, x in enumerate(xs):
        part.add("evaluations")
        part.add("erf_points")
        ax = abs(x)
        reg = ("|x|<2**-28" if ax < 2.0 ** -28 else "2**-28<=|x|<0.84375" if ax < 0.84375 else
               "0.84375<=|x|<1.25" if ax < 1.25 else "1.25<=|x|<1/0.35" if ax < 1 / 0.35 else
               "1/0.35<=|x|<6" if ax < 6 else "|x|>=6")
        rep = {"fn": "erf", "args": {"x": float(x)}, "expected": float(ref[i]), "observed": float(ours[i])}
        if i in exc:
            part.violation(f"erf|{reg}|exception:{exc[i].split(':')[0]}", dict(rep, error=exc[i]))
            continue
        if np.isnan(ours[i]):
            part.violation(f"erf|{reg}|nan", rep)
            continue
        if x != 0 and np.isfinite(x):
            part.add("distinct_nontrivial")
        err = abs(ours[i] - ref[i]) / max(abs(ref[i]), 1e-320) if ref[i] != ours[i] else 0.0
        _setmax(part, "err_erf_rel", err)
        if err > TOL_ERF_REL or abs(ours[i]) > 1.0 or (x != 0 and np.sign(ours[i]) != np.sign(x)):
            part.violation(f"erf|{reg}|rel-err", dict(rep, error=err, tolerance=TOL_ERF_REL))
    # odd symmetry and monotonicity along the sorted lattice
    o = np.argsort(xs)
    d = np.diff(ours[o])
    for j in np.where(d < 0)[0]:
        part.violation("erf|lattice|non-monotone", {"fn": "erf", "args": {"x": [float(xs[o][j]), float(xs[o][j + 1])]},
                                                    "observed": [float(ours[o][j]), float(ours[o][j + 1])]})


def erf_points() -> np.ndarray:
    pts = [0.0, 1e-300, 2.0 ** -28, 1e-8, 0.1, 0.3, 0.5, 0.7, 0.84375, 0.9, 1.0, 1.1, 1.25, 1.5, 2.0, 2.5, 1 / 0.35,
           3.0, 4.0, 5.0, 5.9, 6.0, 10.0, 30.0, INF]
    xs = set()
    for p in pts:
        for v in (p, float(np.nextafter(p, INF)), float(np.nextafter(p, -INF))):
            xs.add(v)
            xs.add(-v)
    return np.array(sorted(xs))


def check_kernels(part: Part, zs: np.ndarray) -> None:
    """_ndtr, _log_ndtr on lattice values; _ndtri_exp on log_ndtr of them (round trip arguments)."""
    T, E, pd, sp, st = _mods()
    zs = np.asarray(zs, dtype=float)
    for name, fn, reffn in (("_ndtr", T._ndtr, sp.ndtr), ("_log_ndtr", T._log_ndtr, sp.log_ndtr)):
        ours, exc = call_vec(fn, [zs])
        ref = reffn(zs)
        for i, z in enumerate(zs):
            part.add("evaluations")
            reg = "z<=-20" if z <= -20 else "-20<z<=6" if z <= 6 else "z>6"
            rep = {"fn": name, "args": {"z": float(z)}, "expected": float(ref[i]), "observed": float(ours[i])}
            if i in exc:
                part.violation(f"truncnorm.{name}|{reg}|exception:{exc[i].split(':')[0]}", dict(rep, error=exc[i]))
                continue
            if np.isnan(ours[i]):
                part.violation(f"truncnorm.{name}|{reg}|nan", rep)
                continue
            if not np.isfinite(ref[i]):
                if ours[i] != ref[i]:
                    part.violation(f"truncnorm.{name}|{reg}|inf-mismatch", rep)
                continue
            part.add("distinct_nontrivial")
            if name == "_ndtr":
                err = abs(ours[i] - ref[i])
                tol = TOL_NDTR_ABS
                _setmax(part, "err_ndtr_abs", err)
            else:
                err = abs(ours[i] - ref[i]) / max(1.0, abs(ref[i]))
                tol = TOL_LOG
                _setmax(part, "err_log_ndtr", err)
            if not err <= tol:
                part.violation(f"truncnorm.{name}|{reg}|{'abs-err' if name == '_ndtr' else 'log-abs-err'}",
                               dict(rep, error=err, tolerance=tol))
    ys = np.unique(np.concatenate([sp.log_ndtr(zs[np.isfinite(zs)]),
                                   -np.array([5000.0, 1000.0, 800.0, 200.0, 50.0, 5.0, 1.0, math.log(2), 0.1, 1e-3,
                                              1e-8, 1e-12, 1e-16, 0.0])]))
    ours, exc = call_vec(T._ndtri_exp, [ys])
    ref = sp.ndtri_exp(ys)
    y_ill = float(sp.log_ndtr(X_ILL))
    for i, y in enumerate(ys):
        part.add("evaluations")
        reg = "x<=-20" if ref[i] <= -20 else "-20<x<=6" if ref[i] <= 6 else "x>6"
        rep = {"fn": "_ndtri_exp", "args": {"y": float(y)}, "expected": float(ref[i]), "observed": float(ours[i])}
        if i in exc:
            part.violation(f"truncnorm._ndtri_exp|{reg}|exception:{exc[i].split(':')[0]}", dict(rep, error=exc[i]))
            continue
        if np.isnan(ours[i]):
            part.violation(f"truncnorm._ndtri_exp|{reg}|nan", rep)
            continue
        if not np.isfinite(ref[i]) or abs(ref[i]) > 100.0:
            part.add("excluded_scipy_degenerate" if not np.isfinite(ref[i]) else "excluded_beyond_100_sigma")
            continue
        if y > y_ill:
            part.add("excluded_ill_conditioned")
            continue
        part.add("distinct_nontrivial")
        err = abs(ours[i] - ref[i]) / max(abs(ref[i]), 1e-6)
        _setmax(part, "err_ndtri_exp_rel", err)
        if not err <= TOL_NDTRI_REL:
            part.violation(f"truncnorm._ndtri_exp|{reg}|rel-err", dict(rep, error=err, tolerance=TOL_NDTRI_REL))


def check_lgm(part: Part, ivs: list[tuple[float, float]]) -> None:
    T, E, pd, sp, st = _mods()
    A = np.array([i[0] for i in ivs], dtype=float)
    B = np.array([i[1] for i in ivs], dtype=float)
    ours, exc = call_vec(T._log_gauss_mass, [A, B])
    ref = ref_log_gauss_mass(A, B)
    W = B - A
    tl = tol_log(W)
    for i in range(len(ivs)):
        part.add("evaluations")
        reg = regime(A[i], B[i])
        rep = {"fn": "_log_gauss_mass", "args": {"a": A[i], "b": B[i]}, "expected": ref[i], "observed": ours[i]}
        if i in exc:
            part.violation(f"truncnorm._log_gauss_mass|{reg}|exception:{exc[i].split(':')[0]}", _f(dict(rep, error=exc[i])))
            continue
        if np.isnan(ours[i]) or ours[i] == INF:
            part.violation(f"truncnorm._log_gauss_mass|{reg}|nan", _f(rep))
            continue
        if not np.isfinite(ref[i]):
            part.add("excluded_scipy_degenerate")
            continue
        part.add("distinct_nontrivial")
        err = abs(ours[i] - ref[i]) / max(1.0, abs(ref[i]))
        _setmax(part, "err_log_mass_" + ("narrow" if W[i] < 1e-5 else "wide"), err)
        _setmax(part, "err_log_mass_over_tol", err / tl[i])
        if not (err <= tl[i] and ours[i] <= 1e-12):
            part.violation(f"truncnorm._log_gauss_mass|{reg}|log-abs-err", _f(dict(rep, error=err, tolerance=tl[i])))


def check_ppf(part: Part, ivs: list[tuple[float, float]], qs: list[float]) -> None:
    T, E, pd, sp, st = _mods()
    n, m = len(ivs), len(qs)
    A = np.repeat(np.array([i[0] for i in ivs], dtype=float), m)
    B = np.repeat(np.array([i[1] for i in ivs], dtype=float), m)
    Q = np.tile(np.array(qs, dtype=float), n)
    ours, exc = call_vec(T.ppf, [Q, A, B])
    ref = st.truncnorm.ppf(Q, A, B)
    W = B - A
    sa = np.where(np.isfinite(A), slack(A, W), 0.0)
    sb = np.where(np.isfinite(B), slack(B, W), 0.0)
    tx = tol_x(ref, W)
    try:
        x_logphi0 = float(T._ndtri_exp(np.array([0.0]))[0])  # what the bisection returns for log Phi(x) = 0
    except Exception:
        x_logphi0 = math.nan
    for k in range(n):
        a, b = ivs[k]
        reg = ("ppf-left" if a < 0 else "ppf-right") + "," + regime(a, b)
        bad_iv = False
        prev = None
        for j in range(m):
            i = k * m + j
            q = qs[j]
            part.add("evaluations")
            part.add("ppf_points")
            rep = {"fn": "ppf", "args": {"q": q, "a": a, "b": b}, "expected": ref[i], "observed": ours[i]}
            if i in exc:
                part.violation(f"truncnorm.ppf|{reg}|exception:{exc[i].split(':')[0]}", _f(dict(rep, error=exc[i])))
                bad_iv = True
                continue
            x = ours[i]
            if np.isnan(x):
                part.violation(f"truncnorm.ppf|{reg}|nan,{qclass(q)}", _f(rep))
                bad_iv = True
                continue
            if q == 0.0 and x != a or q == 1.0 and x != b:
                part.violation(f"truncnorm.ppf|{reg}|endpoint,{qclass(q)}", _f(dict(rep, expected=a if q == 0 else b)))
                bad_iv = True
                continue
            if x < a or x > b:
                exn = (a - x) if x < a else (x - b)
                e = a if x < a else b
                if (x < a - sa[i]) or (x > b + sb[i]):
                    size = "gross" if exn > 1e-3 * max(1.0, abs(e)) else "small"
                    # recognisable root causes get their own failure class (stable finding keys)
                    if np.isfinite(ref[i]) and abs(ref[i]) > 100.0 - 1e-9 and abs(x) == 100.0:
                        size = "x-beyond-bisection-bracket"
                    elif a < 0 and x == x_logphi0:
                        size = "logPhi-rounds-to-0"
                    part.violation(f"truncnorm.ppf|{reg}|outside-interval({size}),{qclass(q)}",
                                   _f(dict(rep, expected=f"in [{a!r}, {b!r}] (SciPy: {float(ref[i])!r})", error=exn,
                                           tolerance=float(sa[i] if x < a else sb[i]))))
                    bad_iv = True
                    continue
                part.add("ppf_outside_strict_within_slack")
                part.note("ppf returns values a few ulp outside [a, b] at extreme q on some lattice intervals (e.g. "
                          "ppf(1e-8, -40.00000001, -40.0) = -40.00000001000001); SciPy does the same; within the stated "
                          "slack, counted as ppf_outside_strict_within_slack")
                _setmax(part, "excursion_over_slack", exn / float(sa[i] if x < a else sb[i]))
            if prev is not None and not bad_iv:
                # monotone non-decreasing along the q lattice (same slack as containment)
                s = slack(np.float64(prev), W[i])
                if x < prev - s:
                    part.violation(f"truncnorm.ppf|{reg}|non-monotone,{qclass(q)}",
                                   _f({"fn": "ppf", "args": {"q": [qs[j - 1], q], "a": a, "b": b},
                                       "observed": [prev, x], "expected": "non-decreasing", "error": prev - x,
                                       "tolerance": float(s)}))
            prev = x
            r = ref[i]
            if not np.isfinite(r) or r < a - sa[i] or r > b + sb[i]:
                part.add("excluded_scipy_degenerate")
                continue
            if a < 0 and r > X_ILL:
                part.add("excluded_ill_conditioned")
                continue
            if 0.0 < q < 1.0:
                part.add("distinct_nontrivial")
            err = abs(x - r)
            _setmax(part, "err_ppf_over_tol", err / tx[i])
            if W[i] >= 0.1:
                _setmax(part, "err_ppf_rel_wide", err / min(W[i], max(1.0, abs(r))))
            else:
                _setmax(part, "err_ppf_ulps_narrow", err / (EPS * max(1.0, abs(r))))
            if not err <= tx[i]:
                part.violation(f"truncnorm.ppf|{reg}|abs-err,{qclass(q)}", _f(dict(rep, error=err, tolerance=tx[i])))
        if k % 997 == 0 and 0.5 in qs:
            j5 = k * m + qs.index(0.5)
            part.sample(_f({"fn": "ppf", "a": a, "b": b, "q": 0.5, "ours": ours[j5], "scipy": ref[j5]}))


def x_lattice(a: float, b: float, loc: float, scale: float) -> list[float]:
    """x at both ends, 1 ulp inside and outside each end, midpoint (data coordinates)."""
    lo, hi = a * scale + loc, b * scale + loc
    xs: list[float] = []
    if math.isfinite(lo):
        xs += [lo, float(np.nextafter(lo, -INF)), float(np.nextafter(lo, INF))]
    if math.isfinite(hi):
        xs += [hi, float(np.nextafter(hi, INF)), float(np.nextafter(hi, -INF))]
    if math.isfinite(lo) and math.isfinite(hi):
        xs.append(lo + (hi - lo) / 2)
    elif math.isfinite(lo):
        xs += [lo + scale, lo + 10 * scale]
    elif math.isfinite(hi):
        xs += [hi - scale, hi - 10 * scale]
    else:
        xs += [loc, loc + scale, loc - 10 * scale]
    return xs


def check_logpdf(part: Part, ivs: list[tuple[float, float]], locscale: list[tuple[float, float]]) -> None:
    T, E, pd, sp, st = _mods()
    X, A, B, L, S = [], [], [], [], []
    for a, b in ivs:
        for loc, scale in locscale:
            for x in x_lattice(a, b, loc, scale):
                X.append(x), A.append(a), B.append(b), L.append(loc), S.append(scale)
    X, A, B, L, S = (np.array(v, dtype=float) for v in (X, A, B, L, S))
    ours, exc = call_vec(T.logpdf, [X, A, B, L, S])
    ref = st.truncnorm.logpdf(X, A, B, L, S)
    W = B - A
    tl = tol_log(W)
    LG = ref_log_gauss_mass(A, B)
    Z = (X - L) / S
    for i in range(len(X)):
        part.add("evaluations")
        part.add("logpdf_points")
        reg = regime(A[i], B[i])
        rep = {"fn": "logpdf", "args": {"x": X[i], "a": A[i], "b": B[i], "loc": L[i], "scale": S[i]},
               "expected": ref[i], "observed": ours[i]}
        if i in exc:
            part.violation(f"truncnorm.logpdf|{reg}|exception:{exc[i].split(':')[0]}", _f(dict(rep, error=exc[i])))
            continue
        o, r = ours[i], ref[i]
        if np.isnan(o) or o == INF:
            part.violation(f"truncnorm.logpdf|{reg}|nan", _f(rep))
            continue
        if L[i] == 0.0 and S[i] == 1.0:
            # standard coordinates: support is decided exactly, independent of SciPy
            inside = A[i] <= X[i] <= B[i]
            if inside != (o != -INF):
                part.violation(f"truncnorm.logpdf|{reg}|support", _f(dict(rep, expected="finite" if inside else "-inf")))
                continue
        if np.isnan(r) or r == INF:
            part.add("excluded_scipy_degenerate")
            continue
        if (o == -INF) != (r == -INF):
            # SciPy decides support on (x-loc)/scale exactly like the code under test
            part.violation(f"truncnorm.logpdf|{reg}|support-mismatch", _f(dict(rep, z=Z[i])))
            continue
        if r == -INF:
            continue
        part.add("distinct_nontrivial")
        # error budget: the log-mass term (cancellation-limited on narrow intervals) + 1e-9 on the rest
        tol = tl[i] * max(1.0, abs(LG[i])) + TOL_LOG * max(1.0, abs(r))
        err = abs(o - r)
        _setmax(part, "err_logpdf_abs_" + ("narrow" if W[i] < 1e-5 else "wide"), err)
        _setmax(part, "err_logpdf_over_tol", err / tol)
        if not err <= tol:
            part.violation(f"truncnorm.logpdf|{reg}|log-abs-err", _f(dict(rep, error=err, tolerance=tol)))


def check_rvs(part: Part, ivs: list[tuple[float, float]], locscale: list[tuple[float, float]], n: int,
              seed0: int) -> None:
    """rvs over a (len(ivs), 1) x (1, n) broadcast with a fixed RandomState: samples inside the
    interval and equal to SciPy's quantile of the same uniforms."""
    T, E, pd, sp, st = _mods()
    A = np.array([i[0] for i in ivs], dtype=float)[:, None]
    B = np.array([i[1] for i in ivs], dtype=float)[:, None]
    W = B - A
    sa = np.where(np.isfinite(A), slack(A, W), 0.0)
    sb = np.where(np.isfinite(B), slack(B, W), 0.0)
    for li, (loc, scale) in enumerate(locscale):
        seed = seed0 * 16 + li
        L = np.full((1, n), loc)
        try:
            ours = np.asarray(T.rvs(A, B, loc=L, scale=scale, random_state=np.random.RandomState(seed)), dtype=float)
            exc = None
            if ours.shape != (len(ivs), n):
                raise ValueError(f"shape {ours.shape}")
        except Exception as e:
            exc = f"{type(e).__name__}: {e}"
        if exc is not None:
            # locate the raising rows
            ours = np.full((len(ivs), n), np.nan)
            u_all = np.random.RandomState(seed).uniform(size=(len(ivs), n))
            for k in range(len(ivs)):
                try:
                    ours[k] = T.ppf(u_all[k], A[k, 0], B[k, 0]) * scale + loc
                except Exception as e:
                    part.violation(f"truncnorm.rvs|{regime(*ivs[k])}|exception:{type(e).__name__}",
                                   _f({"fn": "rvs", "args": {"ivs": [ivs[k]], "locscale": [(loc, scale)], "n": n,
                                                             "seed0": seed0}, "error": f"{type(e).__name__}: {e}"}))
        U = np.random.RandomState(seed).uniform(size=(len(ivs), n))
        refz = st.truncnorm.ppf(U, A, B)
        ref = refz * scale + loc
        lo, hi = A * scale + loc, B * scale + loc
        out_lo = ours < lo - sa * scale
        out_hi = ours > hi + sb * scale
        nan = np.isnan(ours)
        refok = np.isfinite(refz) & (refz >= A - sa) & (refz <= B + sb)
        ill = (A < 0) & (refz > X_ILL)
        tol = tol_x(refz, W) * scale + 8 * EPS * np.maximum(np.abs(ref), abs(loc))
        err = np.abs(ours - ref)
        bad = refok & ~ill & ~(err <= tol) & ~nan & ~out_lo & ~out_hi
        part.add("rvs_samples", ours.size)
        part.add("rvs_outside_strict_within_slack", int((((ours < lo) | (ours > hi)) & ~out_lo & ~out_hi).sum()))
        part.add("excluded_scipy_degenerate", int((~refok).sum()))
        part.add("excluded_ill_conditioned", int((refok & ill).sum()))
        cmpd = refok & ~ill & ~nan & ~out_lo & ~out_hi
        if cmpd.any():
            _setmax(part, "err_rvs_over_tol", float((err[cmpd] / tol[cmpd]).max()))
        for k in range(len(ivs)):
            part.add("evaluations")
            part.add("rvs_calls")
            if cmpd[k].any():
                part.add("distinct_nontrivial")
            if exc is not None and np.isnan(ours[k]).all():
                continue
            a, b = ivs[k]
            reg = ("ppf-left" if a < 0 else "ppf-right") + "," + regime(a, b)
            base = {"fn": "rvs", "args": {"ivs": [ivs[k]], "locscale": [(loc, scale)], "n": n, "seed0": seed0,
                                          "row": k, "seed": seed, "shape": [len(ivs), n]}}
            for mask, fail in ((nan[k], "nan"), (out_lo[k] | out_hi[k], "outside-interval"), (bad[k], "abs-err")):
                if mask.any():
                    j = int(np.argmax(mask))
                    if fail == "outside-interval" and np.isfinite(refz[k, j]) and abs(refz[k, j]) > 100.0 - 1e-9:
                        fail = "outside-interval(x-beyond-bisection-bracket)"
                    part.violation(f"truncnorm.rvs|{reg}|{fail}",
                                   _f(dict(base, a=a, b=b, loc=loc, scale=scale, u=U[k, j], observed=ours[k, j],
                                           expected=(ref[k, j] if fail == "abs-err" else f"in [{float(lo[k, 0])!r}, {float(hi[k, 0])!r}]"),
                                           scipy=ref[k, j], error=err[k, j], tolerance=tol[k, j],
                                           n_bad_in_row=int(mask.sum()))))
    part.sample(_f({"fn": "rvs", "a": ivs[0][0], "b": ivs[0][1], "loc": loc, "scale": scale, "first": ours[0, 0]}))


_GL = None


def _gl():
    global _GL
    if _GL is None:
        _GL = np.polynomial.legendre.leggauss(200)
    return _GL


def quad_nodes(a: float, b: float) -> tuple[np.ndarray, np.ndarray]:
    """Composite 200-node Gauss-Legendre rule on [a, b] in standard coordinates: panels grow
    geometrically away from the mode m = clip(0, a, b) in units of the local e-folding length
    h = 1/max(1, |m|); beyond m +- 40 h the integrand is < e^-40 of its peak and is dropped."""
    m = min(max(0.0, a), b)
    h = 1.0 / max(1.0, abs(m))
    offs = np.array([0.0, 0.25, 0.5, 1.0, 2.0, 3.0, 4.0, 6.0, 8.0, 12.0, 16.0, 24.0, 32.0, 40.0]) * h
    pts = np.unique(np.clip(np.concatenate([m - offs[::-1], m + offs]), a, b))
    t, w = _gl()
    lo, hi = pts[:-1], pts[1:]
    half = (hi - lo) / 2
    z = (lo + half)[:, None] + half[:, None] * t[None, :]
    return z.ravel(), (half[:, None] * w[None, :]).ravel()


def check_quad(part: Part, ivs: list[tuple[float, float]], locscale: list[tuple[float, float]]) -> None:
    T, E, pd, sp, st = _mods()
    for a, b in ivs:
        z, wz = quad_nodes(a, b)
        w = b - a
        tol = max(TOL_INT, 1e-12 / w) if math.isfinite(w) else TOL_INT
        for loc, scale in locscale:
            part.add("evaluations")
            part.add("integrals")
            x = z * scale + loc
            reg = regime(a, b)
            rep = {"fn": "quad", "args": {"ivs": [(a, b)], "locscale": [(loc, scale)]}}
            i_ref = float(np.sum(np.exp(st.truncnorm.logpdf(x, a, b, loc, scale)) * wz * scale))
            try:
                lp = np.asarray(T.logpdf(x, a, b, loc, scale), dtype=float)
            except Exception as e:
                part.violation(f"truncnorm.logpdf(integral)|{reg}|exception:{type(e).__name__}",
                               _f(dict(rep, error=f"{type(e).__name__}: {e}")))
                continue
            if np.isnan(lp).any():
                part.violation(f"truncnorm.logpdf(integral)|{reg}|nan", _f(dict(rep, x=x[np.isnan(lp)][0])))
                continue
            i_our = float(np.sum(np.exp(lp) * wz * scale))
            if not abs(i_ref - 1.0) <= TOL_INT_TRUST * max(1.0, tol / TOL_INT):
                part.add("excluded_quadrature_untrusted")
                continue
            part.add("distinct_nontrivial")
            err = abs(i_our - 1.0)
            _setmax(part, "err_integral_" + ("narrow" if w < 1e-5 else "wide"), err)
            _setmax(part, "err_integral_over_tol", err / tol)
            if not err <= tol:
                part.violation(f"truncnorm.logpdf(integral)|{reg}|integral!=1",
                               _f(dict(rep, observed=i_our, expected=1.0, scipy_integral=i_ref, error=err, tolerance=tol)))


def check_batch(part: Part, ivs: list[tuple[float, float]], qs: list[float]) -> None:
    """Batched shapes give bitwise the numbers of scalar calls: scalar (python floats), (n,) zipped,
    (n,1)x(1,m) broadcast, for ppf / logpdf / rvs / _log_gauss_mass / erf."""
    T, E, pd, sp, st = _mods()
    n, m = len(ivs), len(qs)
    A = np.array([i[0] for i in ivs], dtype=float)
    B = np.array([i[1] for i in ivs], dtype=float)
    Q = np.array(qs, dtype=float)

    def same(x, y):
        return (x == y) | (np.isnan(x) & np.isnan(y))

    def report(fn, shape, a, b, extra, s, v):
        part.violation(f"truncnorm.{fn}|{regime(a, b)}|batch-mismatch({shape})",
                       _f({"fn": "batch", "args": {"ivs": [(a, b)], "qs": qs}, "call": fn, "extra": extra,
                           "expected": s, "observed": v, "shape": shape}))

    try:
        scal = np.array([[T.ppf(q, a, b)[0] for q in qs] for a, b in ivs])
        grid = T.ppf(Q[None, :], A[:, None], B[:, None])
        flat = T.ppf(np.tile(Q, n), np.repeat(A, m), np.repeat(B, m)).reshape(n, m)
        for name, arr in (("(n,1)x(1,m)", grid), ("(n,)", flat)):
            ok = same(scal, arr)
            part.add("evaluations", ok.size)
            part.add("distinct_nontrivial", ok.size)
            part.add("batch_comparisons", ok.size)
            for k, j in zip(*np.where(~ok)):
                report("ppf", name, ivs[k][0], ivs[k][1], {"q": qs[j]}, scal[k, j], arr[k, j])
        # logpdf: x = scalar-call ppf values (interior points), loc/scale broadcast along columns
        for loc, scale in ((0.0, 1.0), (5.0, 1e-8), (-5.0, 1e8)):
            X = scal * scale + loc
            s = np.array([[T.logpdf(float(X[k, j]), ivs[k][0], ivs[k][1], loc, scale)[0] for j in range(m)]
                          for k in range(n)])
            g = T.logpdf(X, A[:, None], B[:, None], np.full((1, m), loc), np.full((1, 1), scale))
            f = T.logpdf(X.ravel(), np.repeat(A, m), np.repeat(B, m), loc, scale).reshape(n, m)
            for name, arr in (("(n,m)x(n,1)x(1,m)", g), ("(n,)", f)):
                ok = same(s, arr)
                part.add("evaluations", ok.size)
                part.add("distinct_nontrivial", ok.size)
                part.add("batch_comparisons", ok.size)
                for k, j in zip(*np.where(~ok)):
                    report("logpdf", name, ivs[k][0], ivs[k][1], {"x": X[k, j], "loc": loc, "scale": scale},
                           s[k, j], arr[k, j])
        # rvs: (n,1)x(1,m) with one RandomState == ppf of the same uniforms, scalar calls
        U = np.random.RandomState(18).uniform(size=(n, m))
        r = T.rvs(A[:, None], B[:, None], loc=np.zeros((1, m)), scale=2.0, random_state=np.random.RandomState(18))
        s = np.array([[T.ppf(float(U[k, j]), ivs[k][0], ivs[k][1])[0] * 2.0 + 0.0 for j in range(m)] for k in range(n)])
        ok = same(s, r)
        part.add("evaluations", ok.size)
        part.add("distinct_nontrivial", ok.size)
        part.add("batch_comparisons", ok.size)
        for k, j in zip(*np.where(~ok)):
            report("rvs", "(n,1)x(1,m)", ivs[k][0], ivs[k][1], {"u": U[k, j]}, s[k, j], r[k, j])
        r0 = T.rvs(ivs[0][0], ivs[0][1], random_state=np.random.RandomState(18))
        u0 = np.random.RandomState(18).uniform()
        if not same(np.asarray(r0).reshape(-1)[0], T.ppf(u0, ivs[0][0], ivs[0][1])[0]):
            report("rvs", "scalar", ivs[0][0], ivs[0][1], {"u": u0}, T.ppf(u0, ivs[0][0], ivs[0][1])[0], r0)
        # _log_gauss_mass: (n,) vs one-element arrays vs (n,1)-shaped
        s = np.array([T._log_gauss_mass(np.array([a]), np.array([b]))[0] for a, b in ivs])
        for name, arr in (("(n,)", T._log_gauss_mass(A, B)), ("(n,1)", T._log_gauss_mass(A[:, None], B[:, None])[:, 0])):
            ok = same(s, arr)
            part.add("evaluations", ok.size)
            part.add("distinct_nontrivial", ok.size)
            part.add("batch_comparisons", ok.size)
            for k in np.where(~ok)[0]:
                report("_log_gauss_mass", name, ivs[k][0], ivs[k][1], {}, s[k], arr[k])
    except Exception as e:
        part.violation(f"truncnorm(batched)|{regime(*ivs[0])}..|exception:{type(e).__name__}",
                       _f({"fn": "batch", "args": {"ivs": ivs, "qs": qs}, "error": f"{type(e).__name__}: {e}"}))


def check_batch_erf(part: Part, xs: np.ndarray) -> None:
    T, E, pd, sp, st = _mods()
    try:
        s = np.array([float(E.erf(np.array(x))) for x in xs])
        v1 = E.erf(xs)
        k = len(xs) // 3
        v2 = E.erf(xs[: 3 * k].reshape(3, k)).ravel()
        for name, arr, ss in (("(n,)", v1, s), ("(3,k)", v2, s[: 3 * k])):
            ok = (ss == arr) | (np.isnan(ss) & np.isnan(arr))
            part.add("evaluations", ok.size)
            part.add("distinct_nontrivial", ok.size)
            part.add("batch_comparisons", ok.size)
            for i in np.where(~ok)[0]:
                part.violation(f"erf|lattice|batch-mismatch({name})",
                               _f({"fn": "batch_erf", "args": {"x": xs[i]}, "expected": ss[i], "observed": arr[i]}))
    except Exception as e:
        part.violation(f"erf|lattice|exception:{type(e).__name__}", {"fn": "batch_erf", "error": f"{type(e).__name__}: {e}"})


# ---- mixtures ------------------------------------------------------------------------------------
# Per-kind parameter variants; index k selects the mixture component. All satisfy
# |low-mu|/sigma, |high-mu|/sigma <= 100 (the property's 1e2-sigma bound).
T_VARIANTS = [
    {"low": 0.0, "high": 1.0, "mu": [0.0, 0.5, 1.0], "sigma": [0.1, 1.0, 10.0]},
    {"low": -5.0, "high": 5.0, "mu": [-5.0, 0.0, 4.9], "sigma": [0.1, 0.5, 100.0]},
    {"low": 2.0, "high": 2.0 + 1e-6, "mu": [2.0, 2.0 + 5e-7, 2.0 + 1e-6], "sigma": [1e-8, 1e-6, 1e-3]},
]
D_VARIANTS = [
    {"low": 0.0, "high": 10.0, "step": 1.0, "mu": [0.0, 5.0, 10.0], "sigma": [0.2, 2.0, 50.0]},
    {"low": -3.0, "high": 3.0, "step": 0.5, "mu": [-3.0, 0.1, 2.9], "sigma": [0.07, 1.0, 6.0]},
    {"low": 1.0, "high": 2.0, "step": 1.0, "mu": [1.0, 1.5, 2.0], "sigma": [0.05, 0.5, 5.0]},
]
C_VARIANTS = [
    {"w": [[1.0, 0.0, 0.0], [0.0, 1.0, 0.0], [0.0, 0.0, 1.0]]},
    {"w": [[0.5, 0.5], [0.9, 0.1], [0.0, 1.0]]},
    {"w": [[0.25, 0.25, 0.25, 0.25], [0.1, 0.2, 0.3, 0.4], [0.0, 0.0, 0.5, 0.5]]},
]
MIX_WEIGHTS = {1: [[1.0]], 2: [[0.5, 0.5], [1.0, 0.0], [0.0, 1.0], [0.3, 0.7]],
               3: [[1 / 3, 1 / 3, 1 / 3], [0.5, 0.0, 0.5], [0.0, 1.0, 0.0], [0.2, 0.3, 0.5], [0.0, 0.0, 1.0]]}


def mixture_specs(tier: str) -> list[dict]:
    specs = []
    kinds = "CTD"
    for nv in (1, 2, 3):
        for kt in itertools.product(kinds, repeat=nv):
            if nv == 1:
                vsel = [(0,), (1,), (2,)]
            else:
                vsel = [tuple((p + sh) % 3 for p in range(nv)) for sh in range(3 if tier == "thorough" else 1)]
            for vs in vsel:
                for K in (1, 2, 3):
                    for wi, w in enumerate(MIX_WEIGHTS[K]):
                        if tier == "quick" and nv == 3 and wi not in (0, 1):
                            continue
                        specs.append({"kinds": "".join(kt), "variants": list(vs), "K": K, "weights": w})
    return specs


def build_mixture(spec: dict):
    T, E, pd, sp, st = _mods()
    K = spec["K"]
    dists = []
    for kind, v in zip(spec["kinds"], spec["variants"]):
        if kind == "C":
            dists.append(pd._BatchedCategoricalDistributions(np.array(C_VARIANTS[v]["w"][:K], dtype=float)))
        elif kind == "T":
            p = T_VARIANTS[v]
            dists.append(pd._BatchedTruncNormDistributions(np.array(p["mu"][:K]), np.array(p["sigma"][:K]), p["low"], p["high"]))
        else:
            p = D_VARIANTS[v]
            dists.append(pd._BatchedDiscreteTruncNormDistributions(np.array(p["mu"][:K]), np.array(p["sigma"][:K]),
                                                                   p["low"], p["high"], p["step"]))
    return pd._MixtureOfProductDistribution(np.array(spec["weights"], dtype=float), dists)


def mixture_x(spec: dict) -> np.ndarray:
    cols = []
    for kind, v in zip(spec["kinds"], spec["variants"]):
        if kind == "C":
            cols.append([float(i) for i in range(len(C_VARIANTS[v]["w"][0]))])
        elif kind == "T":
            p = T_VARIANTS[v]
            lo, hi = p["low"], p["high"]
            cols.append([lo, hi, lo + (hi - lo) / 2, lo + (hi - lo) * 0.123, float(np.nextafter(lo, -INF))])
        else:
            p = D_VARIANTS[v]
            npt = int(round((p["high"] - p["low"]) / p["step"]))
            idx = sorted({0, 1, npt // 2, npt})
            cols.append([p["low"] + i * p["step"] for i in idx])
    return np.array(list(itertools.product(*cols)), dtype=float)


def ref_mixture_logpdf(spec: dict, x: np.ndarray) -> np.ndarray:
    """log sum_k w_k prod_i f_ik(x_i) rebuilt from SciPy: categorical log w; truncnorm
    scipy.stats.truncnorm.logpdf; discrete truncnorm log of the Gaussian mass of the step cell
    [x-step/2, x+step/2] clipped to [low-step/2, high+step/2], over the mass of that whole range."""
    import scipy.special as sp
    import scipy.stats as st

    K = spec["K"]
    n = x.shape[0]
    comp = np.zeros((n, K))
    for i, (kind, v) in enumerate(zip(spec["kinds"], spec["variants"])):
        xi = x[:, i]
        for k in range(K):
            if kind == "C":
                comp[:, k] += np.log(np.array(C_VARIANTS[v]["w"][k])[xi.astype(int)])
            elif kind == "T":
                p = T_VARIANTS[v]
                mu, sg = p["mu"][k], p["sigma"][k]
                comp[:, k] += st.truncnorm.logpdf(xi, (p["low"] - mu) / sg, (p["high"] - mu) / sg, loc=mu, scale=sg)
            else:
                p = D_VARIANTS[v]
                mu, sg, h = p["mu"][k], p["sigma"][k], p["step"] / 2
                lo, hi = p["low"] - h, p["high"] + h
                xl, xu = np.maximum(xi - h, lo), np.minimum(xi + h, hi)
                comp[:, k] += (ref_log_gauss_mass((xl - mu) / sg, (xu - mu) / sg)
                               - ref_log_gauss_mass(np.array((lo - mu) / sg), np.array((hi - mu) / sg)))
    lw = np.log(np.array(spec["weights"], dtype=float))
    return sp.logsumexp(comp + lw[None, :], axis=1)


def check_mixture_bounds(part: Part) -> None:
    """Mixture log-density exactly AT the truncation bounds, over a lattice of non-dyadic (mu, sigma):
    the bounds and the point are standardised by separate expressions inside the mixture code, so a
    1-ulp disagreement between them would put x == low / x == high outside the support (-inf)."""
    T, E, pd, sp, st = _mods()
    mus = [0.2, 0.3, -0.7, 0.1, 0.55, -0.35]
    sigmas = [0.7, 1.3, 0.3, 0.9, 1.7, 0.11]
    for low, high in ((-1.0, 1.0), (0.0, 1.0), (-5.0, 5.0), (0.1, 0.7)):
        for mu in mus:
            for sigma in sigmas:
                mix = pd._MixtureOfProductDistribution(
                    np.array([1.0]), [pd._BatchedTruncNormDistributions(np.array([mu]), np.array([sigma]), low, high)])
                x = np.array([[low], [high], [(low + high) / 2]])
                part.add("evaluations", 3)
                part.add("mixture_bound_points", 2)
                rep0 = {"fn": "mixture-at-bounds", "args": {"low": low, "high": high, "mu": mu, "sigma": sigma}}
                try:
                    ours = np.asarray(mix.log_pdf(x), dtype=float)
                except Exception as e:
                    part.violation(f"mixture.log_pdf|at-bounds|exception:{type(e).__name__}", dict(rep0, error=str(e)))
                    continue
                a, b = (low - mu) / sigma, (high - mu) / sigma
                ref = st.truncnorm.logpdf(x[:, 0], a, b, loc=mu, scale=sigma)
                for r, where in enumerate(("x==low", "x==high", "midpoint")):
                    rep = dict(rep0, x=float(x[r, 0]), expected=float(ref[r]), observed=float(ours[r]))
                    if np.isnan(ours[r]) or not np.isfinite(ref[r]):
                        if np.isnan(ours[r]):
                            part.violation(f"mixture.log_pdf|at-bounds {where}|nan", rep)
                        continue
                    if ours[r] == -INF:
                        part.violation(f"mixture.log_pdf|at-bounds {where}|support-mismatch", rep)
                        continue
                    part.add("distinct_nontrivial")
                    err = abs(ours[r] - ref[r]) / max(1.0, abs(ref[r]))
                    if not err <= TOL_MIX:
                        part.violation(f"mixture.log_pdf|at-bounds {where}|log-abs-err", dict(rep, error=err, tolerance=TOL_MIX))


def check_mixture(part: Part, specs: list[dict], n_samples: int) -> None:
    T, E, pd, sp, st = _mods()
    for si, spec in enumerate(specs):
        zero_w = "w0" if 0.0 in spec["weights"] else "w+"
        reg = f"kinds={''.join(sorted(set(spec['kinds'])))} K={spec['K']} {zero_w}"
        rep0 = {"fn": "mixture", "args": {"spec": spec, "n_samples": n_samples}}
        try:
            mix = build_mixture(spec)
            x = mixture_x(spec)
            ours = np.asarray(mix.log_pdf(x), dtype=float)
        except Exception as e:
            part.add("evaluations")
            part.violation(f"mixture.log_pdf|{reg}|exception:{type(e).__name__}", dict(rep0, error=f"{type(e).__name__}: {e}"))
            continue
        ref = ref_mixture_logpdf(spec, x)
        part.add("mixtures")
        for r in range(x.shape[0]):
            part.add("evaluations")
            part.add("mixture_logpdf_points")
            rep = dict(rep0, x=x[r].tolist(), expected=float(ref[r]), observed=float(ours[r]))
            if np.isnan(ours[r]) or ours[r] == INF:
                part.violation(f"mixture.log_pdf|{reg}|nan", rep)
                continue
            if np.isnan(ref[r]) or ref[r] == INF:
                part.add("excluded_scipy_degenerate")
                continue
            if (ours[r] == -INF) != (ref[r] == -INF):
                part.violation(f"mixture.log_pdf|{reg}|support-mismatch", rep)
                continue
            if ref[r] == -INF:
                continue
            part.add("distinct_nontrivial")
            err = abs(ours[r] - ref[r]) / max(1.0, abs(ref[r]))
            _setmax(part, "err_mixture_logpdf", err)
            if not err <= TOL_MIX:
                part.violation(f"mixture.log_pdf|{reg}|log-abs-err", dict(rep, error=err, tolerance=TOL_MIX))
        # rows evaluated one at a time give the same numbers
        for r in (0, x.shape[0] - 1):
            one = float(np.asarray(mix.log_pdf(x[r:r + 1]))[0])
            if not (one == ours[r] or (np.isnan(one) and np.isnan(ours[r]))):
                part.violation(f"mixture.log_pdf|{reg}|batch-mismatch", dict(rep0, x=x[r].tolist(), expected=one, observed=float(ours[r])))
        # samples lie in the declared domains and have non-zero reference density
        seed = 1800 + si
        try:
            smp = np.asarray(mix.sample(np.random.RandomState(seed), n_samples), dtype=float)
        except Exception as e:
            part.violation(f"mixture.sample|{reg}|exception:{type(e).__name__}", dict(rep0, seed=seed, error=f"{type(e).__name__}: {e}"))
            continue
        part.add("evaluations")
        part.add("mixture_samples", smp.shape[0])
        okrow = np.ones(smp.shape[0], dtype=bool)
        for i, (kind, v) in enumerate(zip(spec["kinds"], spec["variants"])):
            c = smp[:, i]
            if kind == "C":
                ok = (c == np.round(c)) & (c >= 0) & (c < len(C_VARIANTS[v]["w"][0]))
                what = "category index"
            elif kind == "T":
                p = T_VARIANTS[v]
                ok = (c >= p["low"]) & (c <= p["high"])
                what = "[low, high]"
            else:
                p = D_VARIANTS[v]
                g = (c - p["low"]) / p["step"]
                ok = (c >= p["low"]) & (c <= p["high"]) & (np.abs(g - np.round(g)) <= 1e-9)
                what = "step grid"
            ok &= ~np.isnan(c)
            okrow &= ok
            if not ok.all():
                j = int(np.argmin(ok))
                part.violation(f"mixture.sample|{reg}|outside-domain({kind})",
                               dict(rep0, seed=seed, column=i, observed=float(c[j]), expected=what, n_bad=int((~ok).sum())))
        if okrow.any():
            part.add("distinct_nontrivial")
            dens = ref_mixture_logpdf(spec, smp[okrow])
            if (dens == -INF).any():
                j = int(np.argmax(dens == -INF))
                part.violation(f"mixture.sample|{reg}|zero-density-sample",
                               dict(rep0, seed=seed, observed=smp[okrow][j].tolist(), expected="reference density > 0"))
        if si == 0:
            part.sample({"fn": "mixture", "spec": spec, "x": x[0].tolist(), "ours": float(ours[0]), "scipy": float(ref[0])})


# ---- tasks ---------------------------------------------------------------------------------------
def worker(task: tuple) -> dict:
    _setup()
    part = Part()
    kind = task[0]
    if kind == "erf":
        xs = erf_points()
        check_erf(part, xs)
        check_batch_erf(part, xs)
    elif kind == "kernels":
        check_kernels(part, np.array(task[1]))
    elif kind == "lgm":
        check_lgm(part, task[1])
    elif kind == "ppf":
        check_ppf(part, task[1], Q_LATTICE)
    elif kind == "logpdf":
        check_logpdf(part, task[1], LOCSCALE)
    elif kind == "rvs":
        check_rvs(part, task[1], task[2], task[3], task[4])
    elif kind == "quad":
        check_quad(part, task[1], QUAD_LOCSCALE)
    elif kind == "batch":
        check_batch(part, task[1], Q_LATTICE[1:-1] + [0.0, 1.0])
    elif kind == "mix":
        check_mixture(part, task[1], task[2])
    elif kind == "mixbounds":
        check_mixture_bounds(part)
    else:
        raise ValueError(kind)
    return part.out()


def chunks(xs: list, n: int) -> list[list]:
    """n interleaved chunks (so every chunk spans all regimes and costs about the same)."""
    return [xs[i::n] for i in range(n) if xs[i::n]]


def plan(tier: str) -> list[tuple]:
    ivs = lattice_intervals(tier)
    thorough = tier == "thorough"
    tasks: list[tuple] = [("erf",), ("kernels", lattice_values(tier) + [INF, -INF])]
    for c in chunks(ivs, 8):
        tasks.append(("lgm", c))
    for c in chunks(ivs, 32):
        tasks.append(("ppf", c))
    for c in chunks(ivs, 32 if thorough else 16):
        tasks.append(("logpdf", c))
    n_rvs = 64 if thorough else 24
    rvs_ivs = ivs if thorough else ivs[::2] + [iv for iv in ivs if math.isinf(iv[0]) or math.isinf(iv[1])]
    rvs_ivs = sorted(set(rvs_ivs))
    for ci, c in enumerate(chunks(rvs_ivs, 64 if thorough else 32)):
        tasks.append(("rvs", c, LOCSCALE if thorough else [LOCSCALE[0], LOCSCALE[4], LOCSCALE[8]], n_rvs, ci))
    for c in chunks(ivs if thorough else ivs[::3], 32 if thorough else 16):
        tasks.append(("quad", c))
    for c in chunks(ivs[::7] if thorough else ivs[::29], 16 if thorough else 8):
        tasks.append(("batch", c))
    specs = mixture_specs(tier)
    for c in chunks(specs, 16 if thorough else 8):
        tasks.append(("mix", c, 64 if thorough else 16))
    tasks.append(("mixbounds",))
    return tasks


def replay_file(path: str) -> int:
    rep = json.load(open(path))
    part = Part()
    fn, args = rep.get("fn"), rep.get("args", {})

    def fl(v):
        return float(v) if isinstance(v, str) else v

    ivs = [(fl(a), fl(b)) for a, b in args.get("ivs", [])]
    if fn == "ppf":
        q = args["q"] if isinstance(args["q"], list) else [args["q"]]
        check_ppf(part, [(fl(args["a"]), fl(args["b"]))], [fl(v) for v in q])
    elif fn == "logpdf":
        T, E, pd, sp, st = _mods()
        a = {k: fl(v) for k, v in args.items()}
        print("ours ", T.logpdf(a["x"], a["a"], a["b"], a["loc"], a["scale"]))
        print("scipy", st.truncnorm.logpdf(a["x"], a["a"], a["b"], a["loc"], a["scale"]))
        check_logpdf(part, [(a["a"], a["b"])], [(a["loc"], a["scale"])])
    elif fn == "_log_gauss_mass":
        check_lgm(part, [(fl(args["a"]), fl(args["b"]))])
    elif fn == "erf":
        check_erf(part, np.array([fl(args["x"])]))
    elif fn in ("_ndtr", "_log_ndtr", "_ndtri_exp"):
        check_kernels(part, np.array([fl(args.get("z", 0.0))]))
    elif fn == "rvs":
        full = lattice_intervals(rep.get("tier", "quick"))
        print("note: rvs replays the recorded row with its own RandomState stream; the (rows, n) uniforms differ "
              "from the original batch unless row == 0", len(full))
        check_rvs(part, ivs, [tuple(fl(v) for v in ls) for ls in args["locscale"]], max(int(args["n"]), 64), int(args["seed0"]))
    elif fn == "quad":
        check_quad(part, ivs, [tuple(fl(v) for v in ls) for ls in args["locscale"]])
    elif fn == "batch":
        check_batch(part, ivs, [fl(q) for q in args["qs"]])
    elif fn == "mixture":
        check_mixture(part, [args["spec"]], int(args["n_samples"]))
    else:
        print(f"unknown replay kind {fn!r}")
        return 2
    out = part.out()
    for k, v in out["viol"].items():
        print("VIOLATION (replayed):", k, json.dumps({a: b for a, b in v.items() if not a.startswith("_")}))
    if not out["viol"]:
        print("replay: no violation reproduced")
    return 1 if out["viol"] else 0


def run(tier: str, replay: str | None = None) -> int:
    _setup()
    if replay is not None:
        return replay_file(replay)
    ctx = Ctx(PID, tier, "exploration")
    tasks = plan(tier)
    pmap(ctx, worker, tasks)
    ctx.cov["lattice_values"] = len(lattice_values(tier))
    ctx.cov["lattice_intervals"] = len(lattice_intervals(tier))
    ctx.cov["tasks"] = len(tasks)
    ctx.assumptions += [
        "SciPy (scipy.stats.truncnorm, scipy.special.erf/ndtr/log_ndtr/ndtri_exp/logsumexp) is the trusted reference; "
        "points where SciPy itself returns nan/inf or a quantile outside [a,b] are excluded and counted",
        "tolerances are the ones stated in the module docstring (1e-6 relative in the bulk, 1e-9*max(1,|v|) on the log "
        "scale, widened by the stated cancellation term 1e-14/width on intervals narrower than 1e-5)",
        "quantiles with a < 0 and SciPy's x > 6 (Phi(x) within 1e-9 of 1) are checked for NaN, containment and "
        "monotonicity only: the value is not determined by log Phi(x) in double precision in either implementation",
        "containment/monotonicity allow the stated slack (64 ulp or 1e-6 of the width): 1-10 ulp excursions exist on "
        "the unmodified tree (and in SciPy) and are counted, not reported",
        "interval widths below 1e-8, |a|,|b| beyond 100 and scale outside {1e-8,1,1e8} are not on the lattice; "
        "nothing is claimed off the lattice",
        "rvs is checked on fixed RandomState seeds only (membership and equality with SciPy's quantile of the same "
        "uniforms), not as a statistical test",
    ]
    return ctx.finish(
        exhaustive=True,
        rule="every (a,b) pair of the branch-point value lattice with width >= 1e-8 plus every lattice value extended "
             "by every lattice width and every one-sided interval, crossed with the full q lattice (ppf), the x "
             "lattice x 9 (loc,scale) pairs (logpdf), fixed-seed sample batches (rvs), 4 (loc,scale) pairs "
             "(integral); every erf switch point +-1ulp; every mixture spec of the stated grammar",
        extra={"bounds": {"quick": "73 lattice values, 4 widths; rvs on half the intervals x 3 (loc,scale) x 24 samples; "
                                   "integral on every 3rd interval; mixtures: one variant rotation",
                          "thorough": "101 lattice values, 8 widths; rvs on all intervals x 9 (loc,scale) x 64 samples; "
                                      "integral on all intervals; mixtures: 3 variant rotations"}[tier]},
    )


if __name__ == "__main__":
    main_wrapper(run)
