"""SimFS + virtual clock: the environment model under optuna/storages/journal/_file.py
(DESIGN 2.3). The module's names `open`, `os`, `time`, `uuid` are rebound to the objects below;
every simulated syscall is a scheduling point of the running "process" (a baton-scheduled
thread with its own backend/lock objects).

Modelled: O_CREAT|O_EXCL and symlink fail atomically with EEXIST; rename is atomic, ENOENT when
the source is missing; append-mode writes land at EOF, possibly in several chunks (environment
choice); buffered readers fill their buffer with what the file holds at that moment; readline
returns a partial line only at EOF; stat follows symlinks, mtime comes from the virtual clock.
Crash = process death: the victim never performs another syscall; bytes already written stay.
fsync is a no-op point (page cache survives process death; power loss is out of scope).
"""
from __future__ import annotations

import errno
import itertools
import os as _real_os
import threading
import uuid as _uuid
from typing import Any

from . import thx
from .core import InternalError

_FS: "SimFS | None" = None


class Crashed(BaseException):
    """Raised inside a crashed process at every further syscall (so unwinding `finally` blocks
    cannot touch the file system)."""


class _File:
    __slots__ = ("data", "mtime", "link")

    def __init__(self, data: bytes = b"", mtime: float = 0.0, link: str | None = None) -> None:
        self.data = bytearray(data)
        self.mtime = mtime
        self.link = link


class SimFS:
    def __init__(self, sched: "ProcSched | None" = None, bufsize: int = 8192) -> None:
        self.files: dict[str, _File] = {}
        self.clock = 1000.0
        self.sched = sched
        self.bufsize = bufsize
        self.fds: dict[int, str] = {}
        self._fd = itertools.count(10)
        self._uuid_n: dict = {}
        self.syscalls = 0
        self.log: list = []  # (proc, syscall, args) for replays
        self.split_plan: dict = {}  # proc idx -> {write ordinal: [cut offsets]}
        self.write_ordinal: dict = {}
        self.crash_plan: dict = {}  # proc idx -> syscall ordinal at which it dies (before the call)
        self.proc_syscalls: dict = {}
        self.crashed: set = set()
        self.hooks: list = []  # callables(proc, name, args) for ghost state
        self.pdigest: dict = {}
        self.poll: dict = {}  # proc -> paths it has looked at since it last woke up

    # -- process identity & scheduling ----------------------------------------------------------
    def proc(self) -> int:
        s = self.sched
        if s is not None:
            t = s.me()
            if t is not None:
                return t.idx
        return -1  # unmanaged (setup / observation)

    def _sys(self, name: str, *args: Any, mutating: bool = False) -> None:
        """Entry of every simulated syscall: crash check, scheduling point, bookkeeping."""
        p = self.proc()
        if p in self.crashed:
            raise Crashed()
        n = self.proc_syscalls.get(p, 0)
        if self.crash_plan.get(p) == n:
            self.crashed.add(p)
            self.log.append((p, "CRASH", name))
            if self.sched is not None:
                self.sched.proc_crashed(p)
            raise Crashed()
        self.proc_syscalls[p] = n + 1
        # the call p is about to make is part of p's local state (its "program counter"): fold it
        # into the digest BEFORE the scheduling point, so two different points never share a key
        self.note(p, (name,) + tuple(bytes(a) if isinstance(a, bytearray) else a for a in args))
        if self.sched is not None and p >= 0:
            self.sched.point("sys", name)
        if p in self.crashed:
            raise Crashed()
        self.syscalls += 1
        brief = tuple(a if not isinstance(a, (bytes, bytearray)) else len(a) for a in args)
        self.log.append((p, name) + brief)
        paths = [a for a in args if isinstance(a, str) and a.startswith("/")]
        if paths:
            ps = self.poll.setdefault(p, set())
            for x in paths:
                ps.add(x)
                ps.add(self._resolve(x))
        for h in self.hooks:
            h(p, name, args)

    def mutated(self, *paths: str) -> None:
        """A syscall really changed these paths: wake the pollers that have looked at them."""
        if self.sched is not None:
            touched = set(paths) | {self._resolve(x) for x in paths}
            self.sched.progress(self.proc(), touched)

    def note(self, p: int, what: Any) -> None:
        """Fold an observation of process p (syscall + arguments, or its result) into the running
        digest of everything p has seen: p's local state is a function of that sequence."""
        self.pdigest[p] = hash((self.pdigest.get(p, 0), what))

    def ret(self, value: Any) -> Any:
        p = self.proc()
        if isinstance(value, _real_os.stat_result):
            self.note(p, ("st", value.st_size, value.st_mtime))
        else:
            self.note(p, ("r", bytes(value) if isinstance(value, (bytes, bytearray)) else value))
        return value

    def err(self, exc: BaseException) -> BaseException:
        self.note(self.proc(), ("e", type(exc).__name__))
        return exc

    def image(self) -> tuple:
        return tuple(sorted((k, bytes(f.data), f.mtime, f.link) for k, f in self.files.items()))

    def _resolve(self, path: str) -> str:
        f = self.files.get(path)
        if f is not None and f.link is not None:
            return f.link
        return path

    # -- os.* -----------------------------------------------------------------------------------
    def stat(self, path: str) -> Any:
        self._sys("stat", path)
        f = self.files.get(self._resolve(path)) if path in self.files else None
        if f is None:
            raise self.err(FileNotFoundError(errno.ENOENT, "No such file", path))
        return self.ret(_real_os.stat_result((0o100644, 0, 0, 1, 0, 0, len(f.data), f.mtime, f.mtime, f.mtime)))

    def exists(self, path: str) -> bool:
        self._sys("exists", path)
        return self.ret(path in self.files and self._resolve(path) in self.files)

    def symlink(self, target: str, link: str) -> None:
        self._sys("symlink", link, mutating=True)
        if link in self.files:
            raise self.err(FileExistsError(errno.EEXIST, "File exists", link))
        self.files[link] = _File(link=target, mtime=self.clock)
        self.mutated(link)

    def os_open(self, path: str, flags: int, mode: int = 0o777) -> int:
        self._sys("os.open", path, flags, mutating=True)
        if flags & _real_os.O_EXCL and flags & _real_os.O_CREAT and path in self.files:
            raise self.err(FileExistsError(errno.EEXIST, "File exists", path))
        if path not in self.files:
            if not flags & _real_os.O_CREAT:
                raise self.err(FileNotFoundError(errno.ENOENT, "No such file", path))
            self.files[path] = _File(mtime=self.clock)
            self.mutated(path)
        fd = next(self._fd)
        self.fds[fd] = path
        return fd

    def os_close(self, fd: int) -> None:
        self._sys("os.close", fd)
        self.fds.pop(fd, None)

    def rename(self, src: str, dst: str) -> None:
        self._sys("rename", src, dst, mutating=True)
        if src not in self.files:
            raise self.err(FileNotFoundError(errno.ENOENT, "No such file", src))
        self.files[dst] = self.files.pop(src)
        self.mutated(src, dst)

    def unlink(self, path: str) -> None:
        self._sys("unlink", path, mutating=True)
        if path not in self.files:
            raise self.err(FileNotFoundError(errno.ENOENT, "No such file", path))
        del self.files[path]
        self.mutated(path)

    def fsync(self, fd: int) -> None:
        self._sys("fsync", fd)

    def getsize(self, path: str) -> int:
        return self.stat(path).st_size

    # -- file data syscalls ------------------------------------------------------------------------
    def sys_write_append(self, path: str, data: bytes) -> None:
        """One write() of an O_APPEND descriptor, delivered in the chunks the environment plan
        dictates (each chunk is its own syscall / scheduling point / crash point)."""
        p = self.proc()
        k = self.write_ordinal.get(p, 0)
        self.write_ordinal[p] = k + 1
        cuts = sorted(c for c in self.split_plan.get(p, {}).get(k, []) if 0 < c < len(data))
        bounds = [0] + cuts + [len(data)]
        for a, b in zip(bounds, bounds[1:]):
            self._sys("write", path, data[a:b], mutating=True)
            f = self.files.get(path)
            if f is None:  # unlinked while open: data goes to the orphan inode
                return
            f.data += data[a:b]
            f.mtime = self.clock
            self.mutated(path)

    def sys_write_at(self, path: str, offset: int, data: bytes) -> None:
        """pwrite-style write of a descriptor opened without O_APPEND: lands at `offset`; a gap
        beyond EOF reads back as NUL bytes. Chunked like appends."""
        p = self.proc()
        k = self.write_ordinal.get(p, 0)
        self.write_ordinal[p] = k + 1
        cuts = sorted(c for c in self.split_plan.get(p, {}).get(k, []) if 0 < c < len(data))
        bounds = [0] + cuts + [len(data)]
        for a, b in zip(bounds, bounds[1:]):
            self._sys("write", path, data[a:b], offset + a, mutating=True)
            f = self.files.get(path)
            if f is None:
                return
            if offset + a > len(f.data):
                f.data += b"\0" * (offset + a - len(f.data))
            f.data[offset + a:offset + b] = data[a:b]
            f.mtime = self.clock
            self.mutated(path)

    def sys_read(self, path: str, offset: int, n: int) -> bytes:
        self._sys("read", path, offset, n)
        f = self.files.get(path)
        if f is None:
            return self.ret(b"")
        return self.ret(bytes(f.data[offset:offset + n]))

    def sys_truncate(self, path: str, size: int) -> None:
        self._sys("truncate", path, size, mutating=True)
        f = self.files.get(self._resolve(path))
        if f is None:
            raise self.err(FileNotFoundError(errno.ENOENT, "No such file", path))
        if size <= len(f.data):
            del f.data[size:]
        else:
            f.data += b"\0" * (size - len(f.data))
        f.mtime = self.clock
        self.mutated(self._resolve(path))

    # -- open() -----------------------------------------------------------------------------------
    def open(self, path: str, mode: str = "r", *a: Any, **k: Any) -> "FakeFile":
        if "b" not in mode:
            raise InternalError(f"SimFS.open: text mode {mode!r} is not modelled")
        creating = any(c in mode for c in "aw")
        self._sys("open", path, mode, mutating=creating)
        real = self._resolve(path)
        if real not in self.files:
            if not creating and "x" not in mode:
                raise self.err(FileNotFoundError(errno.ENOENT, "No such file", path))
            self.files[real] = _File(mtime=self.clock)
            self.mutated(real)
        elif "x" in mode:
            raise self.err(FileExistsError(errno.EEXIST, "File exists", path))
        if "w" in mode:
            self.files[real].data = bytearray()
            self.files[real].mtime = self.clock
            self.mutated(real)
        fd = next(self._fd)
        self.fds[fd] = real
        return FakeFile(self, real, mode, fd)

    # -- time / uuid -------------------------------------------------------------------------------
    def monotonic(self) -> float:
        self.note(self.proc(), ("clock", self.clock))
        return self.clock

    def time(self) -> float:
        self.note(self.proc(), ("clock", self.clock))
        return self.clock

    def sleep(self, secs: float) -> None:
        p = self.proc()
        if p in self.crashed:
            raise Crashed()
        # the duration is virtual: an ordinary sleep does not move the clock (keeps states mergeable);
        # the clock only jumps, past the grace period, when nobody else can run
        if self.sched is not None and p >= 0:
            self.note(p, ("sleep", secs))
            self.sched.sleep(p)
            self.poll[p] = set()
        if p in self.crashed:
            raise Crashed()

    def uuid4(self) -> _uuid.UUID:
        # per-process counter: names must not depend on the interleaving of other processes
        p = self.proc()
        n = self._uuid_n.get(p, 0) + 1
        self._uuid_n[p] = n
        return _uuid.UUID(int=(0xF5 << 100) | ((p + 2) << 40) | n, version=4)


class FakeFile:
    """Binary buffered file over SimFS (the subset of io.BufferedReader/Writer that journal code
    can reasonably use)."""

    def __init__(self, fs: SimFS, path: str, mode: str, fd: int) -> None:
        self.fs = fs
        self.path = path
        self.mode = mode
        self.fd = fd
        self.closed = False
        self.pos = 0  # logical read position
        self.rbuf = b""  # read-ahead buffer starting at self.pos
        self.wbuf = bytearray()
        self.append = "a" in mode
        self.writable_ = any(c in mode for c in "aw+x")
        self.readable_ = "r" in mode or "+" in mode

    # context manager
    def __enter__(self) -> "FakeFile":
        return self

    def __exit__(self, *a: Any) -> None:
        try:
            self.close()
        except Crashed:
            raise

    def fileno(self) -> int:
        return self.fd

    def close(self) -> None:
        if self.closed:
            return
        self.flush()
        self.closed = True
        self.fs.fds.pop(self.fd, None)

    # writing
    def write(self, data: bytes) -> int:
        if not self.writable_:
            raise OSError("not writable")
        self.wbuf += data
        return len(data)

    def flush(self) -> None:
        if self.wbuf:
            data = bytes(self.wbuf)
            self.wbuf = bytearray()
            if self.append:
                self.fs.sys_write_append(self.path, data)
            else:
                self.fs.sys_write_at(self.path, self.pos, data)
                self.pos += len(data)
                self.rbuf = b""

    def truncate(self, size: int | None = None) -> int:
        self.flush()
        size = self.pos if size is None else size
        self.fs.sys_truncate(self.path, size)
        return size

    # reading
    def _fill(self) -> bool:
        chunk = self.fs.sys_read(self.path, self.pos + len(self.rbuf), self.fs.bufsize)
        self.rbuf += chunk
        return bool(chunk)

    def readline(self, limit: int = -1) -> bytes:
        while True:
            i = self.rbuf.find(b"\n")
            if i >= 0:
                line, self.rbuf = self.rbuf[: i + 1], self.rbuf[i + 1:]
                self.pos += len(line)
                return line
            if not self._fill():
                line, self.rbuf = self.rbuf, b""
                self.pos += len(line)
                return line

    def read(self, n: int = -1) -> bytes:
        if n is None or n < 0:
            while self._fill():
                pass
            out, self.rbuf = self.rbuf, b""
        else:
            while len(self.rbuf) < n and self._fill():
                pass
            out, self.rbuf = self.rbuf[:n], self.rbuf[n:]
        self.pos += len(out)
        return out

    def readlines(self) -> list[bytes]:
        return list(self)

    def __iter__(self) -> "FakeFile":
        return self

    def __next__(self) -> bytes:
        line = self.readline()
        if not line:
            raise StopIteration
        return line

    def seek(self, off: int, whence: int = 0) -> int:
        self.flush()
        if whence == 0:
            self.pos = off
        elif whence == 1:
            self.pos += off
        else:
            self.pos = self.fs.getsize(self.path) + off
        self.rbuf = b""
        return self.pos

    def tell(self) -> int:
        if self.append and self.writable_ and not self.readable_:
            return self.fs.getsize(self.path) + len(self.wbuf)
        return self.pos


# ---------------------------------------------------------------------------------------------
# namespaces bound into optuna.storages.journal._file
# ---------------------------------------------------------------------------------------------
class _Missing:
    def __init__(self, what: str) -> None:
        self.what = what

    def __call__(self, *a: Any, **k: Any) -> Any:
        raise InternalError(f"SimFS: {self.what} is not modelled (harness limitation, not a verdict)")


def _fs() -> SimFS:
    if _FS is None:
        raise InternalError("SimFS call with no active file system")
    return _FS


class _FakePath:
    def exists(self, p: str) -> bool:
        return _fs().exists(p)

    def isfile(self, p: str) -> bool:
        return _fs().exists(p)

    def getsize(self, p: str) -> int:
        return _fs().getsize(p)

    def __getattr__(self, name: str) -> Any:
        return getattr(_real_os.path, name)  # pure path algebra (join, basename, ...)


class _FakeOS:
    O_CREAT, O_EXCL, O_WRONLY, O_RDWR, O_RDONLY, O_APPEND = (
        _real_os.O_CREAT, _real_os.O_EXCL, _real_os.O_WRONLY, _real_os.O_RDWR, _real_os.O_RDONLY, _real_os.O_APPEND)
    path = _FakePath()
    SEEK_SET, SEEK_CUR, SEEK_END = 0, 1, 2
    sep = _real_os.sep
    name = _real_os.name
    stat_result = _real_os.stat_result

    def stat(self, p: str, **k: Any) -> Any:
        return _fs().stat(p)

    def lstat(self, p: str) -> Any:
        fs = _fs()
        fs._sys("lstat", p)
        f = fs.files.get(p)
        if f is None:
            raise fs.err(FileNotFoundError(errno.ENOENT, "No such file", p))
        return fs.ret(_real_os.stat_result((0o100644, 0, 0, 1, 0, 0, len(f.data), f.mtime, f.mtime, f.mtime)))

    def symlink(self, target: str, link: str, **k: Any) -> None:
        _fs().symlink(target, link)

    def open(self, p: str, flags: int, mode: int = 0o777) -> int:
        return _fs().os_open(p, flags, mode)

    def close(self, fd: int) -> None:
        _fs().os_close(fd)

    def rename(self, a: str, b: str) -> None:
        _fs().rename(a, b)

    replace = rename

    def unlink(self, p: str) -> None:
        _fs().unlink(p)

    remove = unlink

    def truncate(self, p: Any, length: int) -> None:
        if isinstance(p, int):
            raise InternalError("SimFS: os.truncate on a descriptor is not modelled")
        _fs().sys_truncate(p, length)

    def fsync(self, fd: int) -> None:
        _fs().fsync(fd)

    fdatasync = fsync

    def getpid(self) -> int:
        return 4000 + _fs().proc()

    def fspath(self, p: Any) -> Any:
        return _real_os.fspath(p)

    def __getattr__(self, name: str) -> Any:
        if name.startswith("__"):
            raise AttributeError(name)
        return _Missing(f"os.{name}")


class _FakeTime:
    def monotonic(self) -> float:
        return _fs().monotonic()

    def time(self) -> float:
        return _fs().time()

    perf_counter = monotonic

    def sleep(self, s: float) -> None:
        _fs().sleep(s)

    def __getattr__(self, name: str) -> Any:
        if name.startswith("__"):
            raise AttributeError(name)
        return _Missing(f"time.{name}")


class _FakeUUID:
    UUID = _uuid.UUID

    def uuid4(self) -> _uuid.UUID:
        return _fs().uuid4()

    def uuid1(self) -> _uuid.UUID:
        return _fs().uuid4()

    def __getattr__(self, name: str) -> Any:
        return getattr(_uuid, name)


def _fake_open(path: str, mode: str = "r", *a: Any, **k: Any) -> FakeFile:
    return _fs().open(path, mode, *a, **k)


_installed = False


def install() -> None:
    """Rebind the names used by optuna.storages.journal._file (in that module only)."""
    global _installed
    import optuna.storages.journal._file as jf

    if _installed:
        return
    jf.open = _fake_open  # type: ignore[attr-defined]
    jf.os = _FakeOS()  # type: ignore[assignment]
    jf.time = _FakeTime()  # type: ignore[assignment]
    jf.uuid = _FakeUUID()  # type: ignore[assignment]
    # wall-clock timestamps end up in the journal records: freeze them, or no two executions would
    # ever reach the same file image (state caching) - observations only use their None-ness
    import datetime as _dt

    import optuna.storages.journal._storage as js

    js.datetime = _FakeDatetimeModule()  # type: ignore[assignment]
    _installed = True


import datetime as _dtmod


class _FrozenDT(_dtmod.datetime):
    """Module-level (instances made by fromisoformat end up in trials, which get pickled into
    journal snapshots)."""

    @classmethod
    def now(cls, tz: Any = None) -> "_dtmod.datetime":
        return _dtmod.datetime(2022, 2, 2, 2, 2, 2, 222222)


class _FakeDatetimeModule:
    datetime = _FrozenDT
    timedelta = _dtmod.timedelta
    date = _dtmod.date


def uninstall() -> None:
    global _installed
    import optuna.storages.journal._file as jf
    import time
    import uuid

    if not _installed:
        return
    del jf.open  # type: ignore[attr-defined]
    jf.os = _real_os  # type: ignore[assignment]
    jf.time = time  # type: ignore[assignment]
    jf.uuid = uuid  # type: ignore[assignment]
    import datetime as _dt

    import optuna.storages.journal._storage as js

    js.datetime = _dt  # type: ignore[assignment]
    _installed = False


def activate(fs: SimFS | None) -> None:
    global _FS
    _FS = fs


# ---------------------------------------------------------------------------------------------
# process scheduler: thx.Sched whose only points are simulated syscalls; sleeping is blocking
# ---------------------------------------------------------------------------------------------
SLEEP = "sleep"


class ProcSched(thx.Sched):
    def __init__(self, chooser: Any, fs: SimFS, grace: float = 31.0, max_jumps: int = 12) -> None:
        super().__init__(chooser)
        self.fs = fs
        fs.sched = self
        self.grace = grace
        self.jumps = 0
        self.max_jumps = max_jumps
        self.livelock = False
        self.ghost_key: Any = None

    def sleep(self, p: int) -> None:
        """time.sleep in a polling loop: the sleeper is disabled until another process has
        mutated the file system (or, when nobody else can run, until the clock has jumped past
        the grace period)."""
        t = self.threads[p]
        t.blocked_on = SLEEP
        t.in_point = True
        try:
            self.step += 1
            self._switch(t)
        finally:
            t.in_point = False

    def progress(self, p: int, touched: set) -> None:
        """A sleeping poller wakes when a path it has looked at since it last woke is mutated."""
        for x in self.threads:
            if x.blocked_on is SLEEP and x.idx != p and (self.fs.poll.get(x.idx, set()) & touched):
                x.blocked_on = None

    def state_key(self, t: Any) -> Any:
        fs = self.fs
        return (t.idx, fs.image(), fs.clock,
                tuple((x.idx, x.done, x.blocked_on is SLEEP, fs.pdigest.get(x.idx, 0), x.idx in fs.crashed)
                      for x in self.threads),
                self.ghost_key() if self.ghost_key else None)

    def proc_crashed(self, p: int) -> None:
        pass

    def _enabled(self) -> list:
        en = super()._enabled()
        if en:
            return en
        sleepers = [t for t in self.threads if not t.done and t.blocked_on is SLEEP]
        if sleepers:
            self.jumps += 1
            if self.jumps > self.max_jumps:
                self.livelock = True
                return []
            self.fs.clock += self.grace
            for t in sleepers:
                t.blocked_on = None
            return sleepers
        return en
