"""Shared plumbing: run context, violations / known findings, evidence, parallel map.

Everything here is about *reporting*; the exploration engines live in explore.py / thx.py /
procx.py and the per-property drivers in cNN.py.
"""
from __future__ import annotations

import hashlib
import json
import math
import multiprocessing as mp
import os
import random
import re
import sys
import time
import traceback
from typing import Any, Callable, Iterable

VERIF = os.path.dirname(os.path.dirname(os.path.abspath(__file__)))
EVIDENCE_DIR = os.path.join(VERIF, "evidence")
REPLAY_DIR = os.path.join(VERIF, "replays")
KNOWN_FILE = os.path.join(VERIF, "known_findings.json")
NPROC = int(os.environ.get("VERIF_NPROC", "16"))


class InternalError(Exception):
    """Harness lost determinism or an environment model was wrong: exit 3, never a VIOLATION."""


def jsonable(x: Any) -> Any:
    """Best-effort conversion of observations into JSON (NaN/inf become strings)."""
    if isinstance(x, float):
        if math.isnan(x):
            return "nan"
        if math.isinf(x):
            return "inf" if x > 0 else "-inf"
        return x
    import enum as _enum

    if isinstance(x, _enum.Enum):
        return x.name
    if isinstance(x, (str, int, bool)) or x is None:
        return x
    if isinstance(x, dict):
        return {str(k): jsonable(v) for k, v in x.items()}
    if isinstance(x, (list, tuple)):
        return [jsonable(v) for v in x]
    if isinstance(x, (set, frozenset)):
        return sorted((jsonable(v) for v in x), key=repr)
    return repr(x)


def load_known() -> list[dict]:
    if not os.path.exists(KNOWN_FILE):
        return []
    return json.load(open(KNOWN_FILE)).get("findings", [])


class Ctx:
    """One run of one check."""

    def __init__(self, pid: str, tier: str, level: str):
        self.pid = pid
        self.tier = tier
        self.level = level
        self.seed = int(os.environ.get("VERIF_SEED", "0"))
        self.rng = random.Random(self.seed)
        self.t0 = time.time()
        self.cov: dict[str, Any] = {}
        self.samples: list[Any] = []
        self.assumptions: list[str] = []
        self.viol: dict[str, dict] = {}  # key -> replay dict (first = smallest seen)
        self.known_hits: dict[str, dict] = {}
        self.known = [k for k in load_known() if k.get("property") == pid]
        self.notes: list[str] = []

    # -- counters -----------------------------------------------------------------------------
    def add(self, key: str, n: int = 1) -> None:
        self.cov[key] = self.cov.get(key, 0) + n

    def setmax(self, key: str, n: int) -> None:
        self.cov[key] = max(self.cov.get(key, 0), n)

    def sample(self, s: Any, cap: int = 6) -> None:
        if len(self.samples) < cap:
            self.samples.append(jsonable(s))

    def merge(self, part: dict) -> None:
        """Merge a worker's partial result (see Part)."""
        for k, v in part.get("cov", {}).items():
            if k.startswith("max_"):
                self.setmax(k, v)
            else:
                self.add(k, v)
        for s in part.get("samples", []):
            self.sample(s)
        for key, rep in part.get("viol", {}).items():
            self.violation(key, rep)
        for n in part.get("notes", []):
            if n not in self.notes and len(self.notes) < 50:
                self.notes.append(n)
        if part.get("internal"):
            raise InternalError(part["internal"])

    # -- violations -----------------------------------------------------------------------------
    def _known_match(self, key: str) -> dict | None:
        for k in self.known:
            if k.get("status", "open") != "open":
                continue
            if k.get("key") == key:
                return k
            if k.get("key_regex") and re.fullmatch(k["key_regex"], key):
                return k
        return None

    def violation(self, key: str, replay: dict) -> None:
        """Record a violation. `key` is the finding key (specific: configuration class, failing
        operation/clause, expected vs observed class)."""
        size = replay.get("_size") or len(json.dumps(jsonable(replay)))
        k = self._known_match(key)
        bucket = self.known_hits if k is not None else self.viol
        if key in bucket and bucket[key]["_size"] <= size:
            bucket[key]["_count"] += 1
            return
        cnt = bucket[key]["_count"] + 1 if key in bucket else 1
        rep = dict(replay)
        rep["_size"] = size
        rep["_count"] = cnt
        bucket[key] = rep

    # -- finish -----------------------------------------------------------------------------
    def finish(self, exhaustive: bool = True, rule: str = "", extra: dict | None = None) -> int:
        os.makedirs(EVIDENCE_DIR, exist_ok=True)
        rdir = os.path.join(REPLAY_DIR, self.pid)
        os.makedirs(rdir, exist_ok=True)
        lines = []
        grouped: dict[str, list] = {}
        for key, rep in sorted(self.known_hits.items()):
            k = self._known_match(key)
            grouped.setdefault(k.get("what", key), []).append((key, rep["_count"]))
        for what, keys in grouped.items():
            lines.append(f"KNOWN-FINDING: property={self.pid} {what} [{len(keys)} finding keys, "
                         f"{sum(c for _, c in keys)} occurrences, e.g. {keys[0][0]}]")
        for key, rep in sorted(self.viol.items()):
            h = hashlib.sha1(key.encode()).hexdigest()[:12]
            path = os.path.join(rdir, f"{h}.json")
            out = {"property": self.pid, "key": key, "tier": self.tier}
            out.update({k: v for k, v in rep.items() if not k.startswith("_")})
            out["occurrences"] = rep["_count"]
            with open(path, "w") as f:
                json.dump(jsonable(out), f, indent=1)
            lines.append(f"VIOLATION property={self.pid} replay={path}  # {key} (x{rep['_count']})")
        cov = dict(self.cov)
        cov["samples"] = self.samples or ["<none>"]
        cov["exhaustive"] = bool(exhaustive)
        if rule:
            cov["rule"] = rule
        if extra:
            cov.update(extra)
        cov["known_findings_seen"] = sorted(self.known_hits)
        cov["violation_keys"] = sorted(self.viol)
        if self.notes:
            cov["notes"] = self.notes
        ev = {
            "property_id": self.pid,
            "tier": self.tier,
            "seed": self.seed,
            "level": self.level,
            "coverage": jsonable(cov),
            "assumptions": self.assumptions,
            "wall_s": round(time.time() - self.t0, 2),
            "violations": len(self.viol),
        }
        with open(os.path.join(EVIDENCE_DIR, f"{self.pid}.json"), "w") as f:
            json.dump(ev, f, indent=1)
        for ln in lines:
            print(ln)
        summ = {k: v for k, v in cov.items() if isinstance(v, (int, float, bool))}
        print(f"[{self.pid}] tier={self.tier} seed={self.seed} wall={ev['wall_s']}s {summ}")
        sys.stdout.flush()
        return 1 if self.viol else 0


class Part:
    """Partial result accumulated inside a worker process; plain dict when returned."""

    def __init__(self) -> None:
        self.cov: dict[str, int] = {}
        self.samples: list[Any] = []
        self.viol: dict[str, dict] = {}
        self.notes: list[str] = []

    def add(self, key: str, n: int = 1) -> None:
        self.cov[key] = self.cov.get(key, 0) + n

    def setmax(self, key: str, n: int) -> None:
        assert key.startswith("max_")
        self.cov[key] = max(self.cov.get(key, 0), n)

    def sample(self, s: Any, cap: int = 3) -> None:
        if len(self.samples) < cap:
            self.samples.append(jsonable(s))

    def note(self, s: str) -> None:
        if s not in self.notes and len(self.notes) < 20:
            self.notes.append(s)

    def violation(self, key: str, replay: dict) -> None:
        raw = None
        try:
            import base64
            import pickle

            raw = base64.b64encode(pickle.dumps(replay)).decode()
        except Exception:
            pass
        replay = jsonable(replay)
        if raw is not None and len(raw) < 200000:
            replay["raw_pickle_b64"] = raw  # exact arguments for --replay (JSON loses tuples/enums/NaN)
        size = len(json.dumps(replay)) - (len(raw) if raw else 0)
        if key in self.viol and self.viol[key]["_size"] <= size:
            self.viol[key]["_count"] += 1
            return
        cnt = self.viol[key]["_count"] + 1 if key in self.viol else 1
        replay["_size"] = size
        replay["_count"] = cnt
        self.viol[key] = replay

    def out(self) -> dict:
        return {"cov": self.cov, "samples": self.samples, "viol": self.viol, "notes": self.notes}


def _call(args):
    fn, item = args
    try:
        return fn(item)
    except InternalError as e:
        return {"internal": f"{e}\n{traceback.format_exc()}"}
    except BaseException as e:  # a harness bug must never look like a pass
        return {"internal": f"harness exception {type(e).__name__}: {e}\n{traceback.format_exc()}"}


def pmap(ctx: Ctx, fn: Callable[[Any], dict], items: Iterable[Any], nproc: int | None = None,
         chunksize: int = 1) -> None:
    """Run fn(item) -> Part.out() over items in a fork pool and merge the results into ctx.
    VERIF_SEED only permutes the processing order (the explored set is the same)."""
    items = list(items)
    ctx.rng.shuffle(items)
    nproc = nproc or NPROC
    if nproc <= 1 or len(items) <= 1:
        for it in items:
            ctx.merge(_call((fn, it)))
        return
    mpctx = mp.get_context("fork")
    with mpctx.Pool(min(nproc, len(items)), maxtasksperchild=None) as pool:
        for part in pool.imap_unordered(_call, [(fn, it) for it in items], chunksize=chunksize):
            ctx.merge(part)


def main_wrapper(run: Callable[[str], int]) -> None:
    """Common entry: parses --tier, maps InternalError to exit 3."""
    import argparse

    ap = argparse.ArgumentParser()
    ap.add_argument("--tier", default=os.environ.get("VERIF_TIER", "quick"), choices=["quick", "thorough"])
    ap.add_argument("--replay", default=None)
    a = ap.parse_args()
    try:
        mod = sys.modules.get(run.__module__)
        if a.replay is not None and mod is not None and hasattr(mod, "replay_case"):
            import base64
            import pickle

            d = json.load(open(a.replay))
            if "raw_pickle_b64" not in d:
                print("replay file has no raw_pickle_b64 section")
                sys.exit(3)
            raw = pickle.loads(base64.b64decode(d["raw_pickle_b64"]))
            part = Part()
            mod.replay_case(raw, part)  # re-executes exactly this one case, no explorer
            keys = sorted(part.viol)
            print(f"[{d.get('property')}] replay of {os.path.basename(a.replay)}: "
                  f"{'VIOLATED: ' + '; '.join(keys) if keys else 'holds (no violation on this tree)'}")
            sys.exit(1 if keys else 0)
        rc = run(a.tier) if a.replay is None else run(a.tier, replay=a.replay)  # type: ignore
    except InternalError as e:
        print(f"INTERNAL-ERROR: {e}", file=sys.stderr)
        sys.exit(3)
    sys.exit(rc)
