"""C19 - stale-trial recovery fails and retries each dead trial at most once.

procx at SQL-statement level (heartbeats exist only on RDB): 2-3 workers, each with its own
RDBStorage (heartbeat enabled, RetryFailedTrialCallback wrapped in a counter) on one SQLite file,
run fail_stale_trials(study) and/or study.ask(); all interleavings of their SQL statements up to
the preemption bound; one worker may die at any statement of its sweep. The environment owns
time: heartbeat rows are back-dated by SQL instead of sleeping. Plus seqx: every retry chain
stale -> retry -> claimed -> stale again up to max_retry+2.
"""
from __future__ import annotations

import os
import sqlite3
from typing import Any

import optuna
from optuna.storages import RetryFailedTrialCallback, fail_stale_trials
from optuna.trial import TrialState

from . import backends, sqlx, thx
from .core import Ctx, InternalError, Part, main_wrapper, pmap
from .explore import Chooser, explore

PID = "C19"


def open_hb(path: str, max_retry: Any, calls: list, who: int) -> Any:
    cb = RetryFailedTrialCallback(max_retry=max_retry)

    def counted(study: Any, trial: Any) -> None:
        calls.append((who, trial.number))
        cb(study, trial)

    return backends.open_rdb(path, heartbeat_interval=1, grace_period=1, failed_trial_callback=counted)


def postdate(path: str, trial_id: int) -> None:
    """A 'fresh' heartbeat must stay fresh however slowly the run goes (real time is not ours)."""
    con = sqlite3.connect(path)
    con.execute("UPDATE trial_heartbeats SET heartbeat = datetime('now', '+1 hour') WHERE trial_id = ?", (trial_id,))
    con.commit()
    con.close()


def backdate(path: str, trial_id: int) -> None:
    con = sqlite3.connect(path)
    con.execute("UPDATE trial_heartbeats SET heartbeat = datetime('now', '-1 hour') WHERE trial_id = ?", (trial_id,))
    con.commit()
    con.close()


class World:
    """pattern: which trials exist. 'plain' = stale RUNNING trial with a param, a report and a
    user attr; 'enqueued' = stale RUNNING trial that was enqueued with fixed params."""

    def __init__(self, pattern: str, max_retry: Any, n_workers: int) -> None:
        backends.reset_uuid()
        self.path = backends.new_sqlite_file()
        self.calls: list = []
        self.storages = [open_hb(self.path, max_retry, self.calls, i) for i in range(n_workers + 1)]
        s0 = self.storages[-1]
        # another study in the same database with its own stale RUNNING trial: a sweep of study c19
        # must not touch it (the stale-trial query is per study)
        other = optuna.create_study(storage=s0, study_name="c19-other", sampler=optuna.samplers.RandomSampler(seed=5))
        ot = other.ask()
        ot.suggest_float("x", 0, 1)
        other._storage.record_heartbeat(ot._trial_id)
        backdate(self.path, ot._trial_id)
        self.other_trial_id = ot._trial_id
        self.study0 = optuna.create_study(storage=s0, study_name="c19", sampler=optuna.samplers.RandomSampler(seed=0))
        st = self.study0._storage
        self.protected: dict = {}
        # the stale one
        if pattern == "enqueued":
            self.study0.enqueue_trial({"x": 0.25}, user_attrs={"u": [1]})
        t = self.study0.ask()
        t.suggest_float("x", 0, 1)
        t.report(0.5, 0)
        if pattern != "enqueued":
            t.set_user_attr("u", [1])
        st.record_heartbeat(t._trial_id)
        backdate(self.path, t._trial_id)
        self.stale = t.number
        # protected kinds
        fresh = self.study0.ask()
        fresh.suggest_float("x", 0, 1)
        st.record_heartbeat(fresh._trial_id)
        postdate(self.path, fresh._trial_id)
        nohb = self.study0.ask()
        nohb.suggest_float("x", 0, 1)
        fin = self.study0.ask()
        fin.suggest_float("x", 0, 1)
        st.record_heartbeat(fin._trial_id)
        backdate(self.path, fin._trial_id)
        self.study0.tell(fin, 1.0)
        if pattern == "two-stale":
            t2 = self.study0.ask()
            t2.suggest_float("x", 0, 1)
            st.record_heartbeat(t2._trial_id)
            backdate(self.path, t2._trial_id)
            self.stale2 = t2.number
        self.snapshot = {t.number: self.canon(t) for t in self.study0.get_trials(deepcopy=True)}
        self.protected_numbers = [fresh.number, nohb.number, fin.number]
        self.studies = [optuna.load_study(study_name="c19", storage=self.storages[i],
                                          sampler=optuna.samplers.RandomSampler(seed=i)) for i in range(n_workers)]
        for s in self.storages:
            sqlx.attach(s)

    @staticmethod
    def canon(t: Any) -> tuple:
        return (t.state.name, dict(t.params), {k: repr(v) for k, v in t.distributions.items()}, dict(t.user_attrs),
                {k: v for k, v in t.system_attrs.items()}, dict(t.intermediate_values), t.values)

    def final(self) -> list:
        s = optuna.load_study(study_name="c19", storage=backends.open_rdb(self.path))
        out = s.get_trials(deepcopy=True)
        self.other_final = s._storage.get_trial(self.other_trial_id).state.name
        self.n_other = len(optuna.load_study(study_name="c19-other", storage=s._storage).get_trials(deepcopy=False))
        s._storage._backend.engine.dispose()
        return out

    def close(self) -> None:
        for s in self.storages:
            try:
                s.engine.dispose()
            except Exception:
                pass
        if os.path.exists(self.path):
            os.unlink(self.path)


PROGRAMS = {
    "sweep|sweep": (("sweep",), ("sweep",)),
    "sweep|ask": (("sweep",), ("ask",)),
    "sweep,ask|sweep": (("sweep", "ask"), ("sweep",)),
    "sweep|sweep|sweep": (("sweep",), ("sweep",), ("sweep",)),
    "sweep,sweep|sweep": (("sweep", "sweep"), ("sweep",)),
    "sweep|owner-completes": (("sweep",), ("owner-completes",)),
}


class Run:
    def __init__(self, pattern: str, max_retry: Any, prog: str, crash: tuple | None) -> None:
        self.pattern, self.max_retry, self.prog, self.crash = pattern, max_retry, prog, crash
        self.programs = PROGRAMS[prog]
        thx.set_instrumented([])

    def execute(self, ch: Chooser) -> dict:
        w = World(self.pattern, self.max_retry, len(self.programs))
        try:
            sched = thx.Sched(ch, max_steps=40000)
            world = sqlx.SqlWorld(sched)
            if self.crash is not None:
                world.crash_plan = {self.crash[0]: self.crash[1]}
            sqlx.activate(world)
            events: list = []
            cas: list = []  # (worker, trial number, 'True'/'False'/exception class) of every FAIL compare-and-set

            def spy(i: int) -> None:
                stg = w.studies[i]._storage
                real = stg.set_trial_state_values

                def wrapped(trial_id: int, state: Any, values: Any = None) -> Any:
                    if state != TrialState.FAIL:
                        return real(trial_id, state, values)
                    num = stg.get_trial_number_from_id(trial_id)
                    try:
                        r = real(trial_id, state, values)
                    except Exception as e:
                        cas.append((i, num, type(e).__name__))
                        raise
                    cas.append((i, num, str(bool(r))))
                    return r

                stg.set_trial_state_values = wrapped

            for i in range(len(self.programs)):
                spy(i)

            def mk(i: int):
                def body() -> None:
                    for step in self.programs[i]:
                        sched.point("op")
                        try:
                            if step == "sweep":
                                fail_stale_trials(w.studies[i])
                                events.append((i, "sweep", "ok"))
                            elif step == "owner-completes":
                                # the (slow but alive) owner of the second stale trial finishes it
                                w.studies[i].tell(w.stale2, 0.5)
                                events.append((i, "owner-completes", "ok"))
                            else:
                                t = w.studies[i].ask()
                                v = t.suggest_float("x", 0, 1)
                                events.append((i, "ask", t.number, v))
                        except sqlx.Crashed:
                            events.append((i, step, "crashed"))
                            w.storages[i].engine.dispose()  # process death closes its connections
                            world.proc_died(i)
                            return
                        except thx.DeadlockAbort:
                            raise
                        except InternalError:
                            raise
                        except Exception as e:
                            if "database is locked" in repr(e) or "database is locked" in repr(e.__cause__):
                                raise InternalError(f"real SQLite lock conflict under an enabled choice: lock model wrong ({e!r})")
                            events.append((i, step, f"raised {type(e).__name__}: {str(e)[:80]}"))
                return body

            try:
                threads = sched.run([mk(i) for i in range(len(self.programs))])
            finally:
                sqlx.activate(None)
            errs = [t.error for t in threads if t.error and t.error != "deadlock"]
            if errs:
                raise InternalError(f"driver error {errs}")
            trials = w.final()
            return {"events": events, "cas": cas, "other_study": (w.other_final, w.n_other), "calls": list(w.calls), "trials": [(t.number,) + World.canon(t) for t in trials],
                    "snapshot": w.snapshot, "protected": w.protected_numbers, "stale": [w.stale] + ([w.stale2] if self.pattern == "two-stale" else []),
                    "deadlock": sched.deadlock, "steps": sched.step, "n_stmt": dict(world.n_stmt), "sql": world.log[-60:]}
        finally:
            w.close()

    def check(self, ex: dict) -> list[tuple[str, str]]:
        bad: list = []
        if ex["deadlock"]:
            return [("deadlock", "")]
        trials = {t[0]: t[1:] for t in ex["trials"]}
        sweeps_ok = [e for e in ex["events"] if e[1] == "sweep" and e[2] == "ok"]
        for e in ex["events"]:
            if isinstance(e[2], str) and e[2].startswith("raised"):
                if e[1] == "owner-completes" and e[2].split()[1].rstrip(":") in ("ValueError", "UpdateFinishedTrialError"):
                    continue  # the sweeper failed the trial first: the owner is told so (legitimate)
                bad.append((f"{e[1]}-raised", e[2]))
        if ex["other_study"] != ("RUNNING", 1):
            bad.append(("stale-trial-of-ANOTHER-study-touched", str(ex["other_study"])))
        # protected trials untouched
        for n in ex["protected"]:
            if trials[n] != ex["snapshot"][n]:
                bad.append(("protected-trial-touched", f"trial {n}: {ex['snapshot'][n][0]} -> {trials[n][0]}"))
        # the callback belongs to the worker that moved the trial to FAIL, nobody else
        for who, num in ex["calls"]:
            if (who, num, "True") not in ex["cas"]:
                bad.append(("callback-run-by-a-worker-that-did-not-fail-the-trial", f"worker {who} trial {num} cas={ex['cas']}"))
        completed_by_owner = {e[0] for e in ex["events"] if e[1] == "owner-completes" and e[2] == "ok"}
        for sn in ex["stale"]:
            if trials[sn][0] == "COMPLETE":
                # a sweeper whose FAIL compare-and-set returned True and an owner whose tell also
                # succeeded: the SQLite lost update (known finding); anything else is the precise
                # clause above (callback by a worker that did not fail the trial)
                if any(c[1] == sn for c in ex["calls"]) and any((c[0], sn, "True") in ex["cas"] for c in ex["calls"] if c[1] == sn):
                    bad.append(("sqlite-lost-update:sweeper-FAILed-and-owner-COMPLETEd-the-same-trial", f"trial {sn}"))
                continue
            if sweeps_ok and trials[sn][0] != "FAIL":
                bad.append(("stale-trial-not-failed-after-a-completed-sweep", f"trial {sn} is {trials[sn][0]}"))
            n_cb = sum(1 for c in ex["calls"] if c[1] == sn)
            if n_cb > 1:
                bad.append(("failure-callback-ran-more-than-once-for-one-trial", f"trial {sn}: {ex['calls']}"))
            retries = [(n, t) for n, t in trials.items() if t[4].get("retry_history", [None])[-1:] == [sn] and n != sn]
            if len(retries) > 1:
                bad.append(("more-than-one-retry-enqueued-for-one-failure", f"trial {sn}: retries {[n for n, _ in retries]}"))
            if self.max_retry == 0 and retries:
                bad.append(("retry-although-max_retry-reached", f"trial {sn}"))
            orig = ex["snapshot"][sn]
            for n, t in retries:
                if t[1] != orig[1] or t[2] != orig[2] and t[0] != "RUNNING":
                    if t[1] != orig[1]:
                        bad.append(("retry-lost-the-original-params", f"{t[1]} vs {orig[1]}"))
                if t[3] != orig[3]:
                    bad.append(("retry-lost-the-user-attrs", f"{t[3]} vs {orig[3]}"))
                if t[4].get("failed_trial") != sn or t[4].get("retry_history") != [sn]:
                    bad.append(("retry-history-wrong", f"{t[4]}"))
                if "fixed_params" in orig[4] and t[4].get("fixed_params") != orig[4]["fixed_params"]:
                    bad.append(("retry-lost-fixed-params", ""))
        # a worker that asked after the failure gets the retry with the original parameter value
        for e in ex["events"]:
            if e[1] == "ask" and isinstance(e[2], int):
                t = trials.get(e[2])
                if t is not None and "retry_history" in t[4]:
                    want = ex["snapshot"][t[4]["retry_history"][0]][1].get("x")
                    if e[3] != want:
                        bad.append(("retry-claimed-but-suggest-returned-another-value", f"{e[3]} vs {want}"))
        return bad


def task_fn(task: tuple) -> dict:
    kind = task[0]
    backends.setup_determinism()
    part = Part()
    if kind == "chain":
        return chain_task(task, part)
    if kind == "view":
        return view_task(task, part)
    _, pattern, max_retry, prog, bound, with_crash = task
    outcomes: set = set()

    def go(crash: tuple | None) -> None:
        run = Run(pattern, max_retry, prog, crash)
        first = {"done": False}

        def on_exec(ch: Chooser, ex: dict) -> None:
            part.add("executions")
            part.add("transitions", ex["steps"])
            if not first["done"]:
                ex2 = run.execute(Chooser(ch.choices))
                if (ex2["events"], ex2["trials"]) != (ex["events"], ex["trials"]):
                    raise InternalError(f"replaying one schedule twice differed: {task}")
                first["done"] = True
            outcomes.add((tuple(map(str, ex["events"])), tuple(sorted(ex["calls"])), tuple(t[1] for t in ex["trials"])))
            for clause, detail in run.check(ex):
                key = f"procx-sql|{prog}|{'crash' if crash else 'no-crash'}|{clause}"
                part.violation(key, {"engine": "procx/SQL", "pattern": pattern, "max_retry": max_retry, "programs": prog,
                                     "crash": crash, "schedule": ch.choices, "clause": clause, "detail": detail,
                                     "events": ex["events"], "callback_calls": ex["calls"], "fail_cas": ex["cas"],
                                     "trials": [(t[0], t[1], t[5].get("retry_history")) for t in ex["trials"]]})

        st = explore(run.execute, bound, on_exec, max_execs=5000)
        if st["capped"]:
            part.add("caps_hit")
        part.setmax("max_points", st["max_points"])

    go(None)
    if with_crash:
        # worker 0 dies before each statement / commit of its sweep (sequential schedules: bound 0)
        dry = Run(pattern, max_retry, prog, None).execute(Chooser())
        n = dry["n_stmt"].get(0, 0)
        part.add("crash_points", n)
        for k in range(n):
            run = Run(pattern, max_retry, prog, (0, k))
            ex = run.execute(Chooser([1]))  # the survivor (worker 1) goes first ...
            for ch_pref in ([0], [1]):
                ex = run.execute(Chooser(ch_pref))
                part.add("executions")
                part.add("transitions", ex["steps"])
                outcomes.add((tuple(map(str, ex["events"])), tuple(sorted(ex["calls"])), tuple(t[1] for t in ex["trials"])))
                for clause, detail in run.check(ex):
                    part.violation(f"procx-sql|{prog}|crash|{clause}", {"engine": "procx/SQL", "pattern": pattern, "max_retry": max_retry,
                                                                        "programs": prog, "crash": (0, k), "schedule": ch_pref,
                                                                        "clause": clause, "detail": detail, "events": ex["events"]})
    part.add("scenarios")
    part.add("states", len(outcomes))
    part.add("traces_validated_against_impl", part.cov.get("executions", 0))
    part.sample({"pattern": pattern, "max_retry": max_retry, "programs": prog, "bound": bound, "distinct_outcomes": len(outcomes)}, cap=1)
    return part.out()


def chain_task(task: tuple, part: Part) -> dict:
    """Sequential retry chains: stale -> retry -> claimed -> stale again ..."""
    _, max_retry, pattern = task
    calls: list = []
    path = backends.new_sqlite_file()
    st = open_hb(path, max_retry, calls, 0)
    try:
        study = optuna.create_study(storage=st, study_name="c19", sampler=optuna.samplers.RandomSampler(seed=0))
        if pattern == "enqueued":
            study.enqueue_trial({"x": 0.25}, user_attrs={"u": [1]})
        limit = (max_retry if max_retry is not None else 3) + 2
        chain: list = []
        first_params = None
        for i in range(limit):
            t = study.ask()
            v = t.suggest_float("x", 0, 1)
            if first_params is None:
                first_params = v
                if pattern != "enqueued":
                    t.set_user_attr("u", [1])
            elif v != first_params:
                part.violation("chain|retry-suggests-another-value", {"max_retry": max_retry, "chain": chain, "value": v, "first": first_params})
            if chain:
                fa = study._storage.get_trial(t._trial_id).system_attrs
                if fa.get("retry_history") != chain or fa.get("failed_trial") != chain[0]:
                    part.violation("chain|retry-history-wrong", {"max_retry": max_retry, "chain": chain, "attrs": fa})
                if study._storage.get_trial(t._trial_id).user_attrs != {"u": [1]}:
                    part.violation("chain|retry-lost-user-attrs", {"max_retry": max_retry, "chain": chain})
            chain.append(t.number)
            study._storage.record_heartbeat(t._trial_id)
            backdate(path, t._trial_id)
            n_before = len(study.get_trials(deepcopy=False))
            fail_stale_trials(study)
            part.add("transitions")
            trials = study.get_trials(deepcopy=False)
            if trials[t.number].state != TrialState.FAIL:
                part.violation("chain|stale-trial-not-failed", {"max_retry": max_retry, "chain": chain})
            new = len(trials) - n_before
            allowed = 1 if (max_retry is None or len(chain) <= max_retry) else 0
            if new != allowed:
                part.violation("chain|wrong-number-of-retries", {"max_retry": max_retry, "chain": chain, "new_trials": new, "expected": allowed})
            if new == 0:
                break
        if max_retry is not None and len(chain) - 1 > max_retry:
            part.violation("chain|more-than-max_retry-retries", {"max_retry": max_retry, "chain": chain})
        if len(calls) != len(set(calls)):
            part.violation("chain|callback-twice-for-one-trial", {"calls": calls})
        part.add("executions")
        part.add("states")
        part.add("scenarios")
    finally:
        st.engine.dispose()
        os.unlink(path)
    return part.out()


def view_task(task: tuple, part: Part) -> dict:
    """Generations of k stale trials swept together by ONE worker whose failure callback first reads
    the study (a logging/reporting callback) and then retries: after every sweep the worker's own
    view of every trial (through its caching storage) must equal what a fresh client reads from the
    database, and every retry must carry params, user attrs and retry history of its parent."""
    _, max_retry, k, reads = task
    from .sharness import trial_canon

    path = backends.new_sqlite_file()
    calls: list = []
    cb = RetryFailedTrialCallback(max_retry=max_retry)
    holder: dict = {}

    def callback(study: Any, trial: Any) -> None:
        calls.append(trial.number)
        if reads:
            holder["seen"] = len(study.get_trials(deepcopy=False))
        cb(study, trial)

    st = backends.open_rdb(path, heartbeat_interval=1, grace_period=1, failed_trial_callback=callback)
    try:
        study = optuna.create_study(storage=st, study_name="c19v", sampler=optuna.samplers.RandomSampler(seed=0))
        key = f"view|k={k}|reads={int(reads)}"
        expect_hist: dict[int, list] = {}
        n_gen = (max_retry if max_retry is not None else 2) + 2
        for gen in range(n_gen):
            running = []
            for _ in range(k):
                t = study.ask()
                v = t.suggest_float("x", 0, 1)
                if gen == 0:
                    t.set_user_attr("u", [t.number])
                    expect_hist[t.number] = []
                running.append(t)
            for t in running:
                study._storage.record_heartbeat(t._trial_id)
                backdate(path, t._trial_id)
            n_before = len(study.get_trials(deepcopy=False))
            fail_stale_trials(study)
            part.add("transitions")
            # the worker's view against the database
            fresh = backends.open_rdb(path)
            try:
                truth = [trial_canon(x, None) for x in fresh.get_all_trials(study._study_id, deepcopy=False)]
            finally:
                fresh.engine.dispose()
            for getter, view in (("get_trials", [trial_canon(x, None) for x in study.get_trials(deepcopy=False)]),
                                 ("storage.get_trial", [trial_canon(study._storage.get_trial(x._trial_id), None) for x in study.get_trials(deepcopy=False)])):
                if view != truth:
                    bad = [i for i, (a, b) in enumerate(zip(view, truth)) if a != b]
                    part.violation(f"{key}|sweeper's-own-view-differs-from-the-database|{getter}",
                                   {"max_retry": max_retry, "generation": gen, "trials": bad,
                                    "view": [dict(view[i]).get("system_attrs") for i in bad][:3],
                                    "database": [dict(truth[i]).get("system_attrs") for i in bad][:3]})
            trials = study.get_trials(deepcopy=False)
            new = trials[n_before:]
            for t in running:
                if trials[t.number].state != TrialState.FAIL:
                    part.violation(f"{key}|stale-trial-not-failed", {"max_retry": max_retry, "generation": gen})
                hist = expect_hist[t.number] + [t.number]
                kids = [x for x in new if x.system_attrs.get("retry_history") == hist]
                allowed = 1 if (max_retry is None or len(hist) <= max_retry) else 0
                if len(kids) != allowed:
                    part.violation(f"{key}|wrong-number-of-retries-or-wrong-retry-history",
                                   {"max_retry": max_retry, "generation": gen, "parent": t.number, "expected_history": hist,
                                    "new": [(x.number, x.system_attrs.get("retry_history")) for x in new]})
                for x in kids:
                    expect_hist[x.number] = hist
                    if x.params != trials[t.number].params or x.distributions != trials[t.number].distributions \
                            or x.user_attrs != trials[t.number].user_attrs \
                            or x.system_attrs.get("failed_trial") != hist[0]:
                        part.violation(f"{key}|retry-does-not-carry-its-parent's-fields", {"max_retry": max_retry, "parent": t.number, "retry": x.number})
            if len(new) != sum(1 for t in running if (max_retry is None or len(expect_hist[t.number]) + 1 <= max_retry)):
                part.violation(f"{key}|wrong-number-of-retries-or-wrong-retry-history", {"max_retry": max_retry, "generation": gen, "new": len(new)})
            if not new:
                break
        if len(calls) != len(set(calls)):
            part.violation(f"{key}|callback-twice-for-one-trial", {"calls": calls})
        part.add("executions")
        part.add("states")
        part.add("scenarios")
    finally:
        st.engine.dispose()
        os.unlink(path)
    return part.out()


def replay_case(raw: dict, part: Part) -> None:
    backends.setup_determinism()
    backends.sqlite_template()
    run = Run(raw["pattern"], raw["max_retry"], raw["programs"], tuple(raw["crash"]) if raw.get("crash") else None)
    ex = run.execute(Chooser(list(raw["schedule"])))
    print("events:", ex["events"], "callback calls:", ex["calls"])
    for clause, detail in run.check(ex):
        part.violation(clause, raw)


def run(tier: str, replay: str | None = None) -> int:
    backends.setup_determinism()
    ctx = Ctx(PID, tier, "model_checking")
    backends.sqlite_template()
    tasks: list = []
    bound = 1 if tier == "quick" else 2
    for pattern in ("plain", "enqueued", "two-stale"):
        for max_retry in (0, 1, None):
            progs = ["sweep|sweep", "sweep|ask"] if tier == "quick" else list(PROGRAMS)
            if pattern == "two-stale" and tier == "quick":
                progs = ["sweep|sweep", "sweep|owner-completes"]
            if pattern != "two-stale":
                progs = [p for p in progs if "owner-completes" not in p]
            for prog in progs:
                crash = prog == "sweep|sweep" and (tier == "thorough" or (pattern == "plain" and max_retry == 1))
                tasks.append(("conc", pattern, max_retry, prog, bound if len(PROGRAMS[prog]) == 2 else 1, crash))
    for max_retry in (0, 1, 2, None):
        for pattern in ("plain", "enqueued"):
            tasks.append(("chain", max_retry, pattern))
    for max_retry in (0, 1, 2, None):
        for k in (1, 2, 3):
            for reads in (False, True):
                tasks.append(("view", max_retry, k, reads))
    pmap(ctx, task_fn, tasks)
    ctx.assumptions += [
        "heartbeats exist only on RDB: SQLite on /dev/shm; statement-level scheduling with the single-writer lock modelled (vf/sqlx.py)",
        "time is owned by the environment: heartbeat rows are back-dated one hour by SQL; HeartbeatThread is not used",
        "one worker death per run (at every statement/commit boundary of worker 0's sweep), survivors run to completion",
    ]
    backends.cleanup_root()
    return ctx.finish(
        exhaustive=not ctx.cov.get("caps_hit"),
        rule="trial patterns {plain, enqueued, two stale} x max_retry {0,1,None} x worker programs (sweep|sweep, sweep|ask; thorough: 5 programs incl. 3 workers) x all SQL-statement interleavings up to the preemption bound; death of worker 0 before every statement of its sweep; sequential retry chains up to max_retry+2; generations of 1-3 stale trials swept together by one caching worker whose callback reads the study, view compared with the database after every sweep",
    )


if __name__ == "__main__":
    main_wrapper(run)
